"""C14 — prank, state-setting cheatcodes and fresh symbols behave as specified.

Histories of <= 10 actions in the entry frame (and inside a callee that pranks for itself):
prank / prank(a,o) / startPrank / startPrank(a,o) / stopPrank, CALL / STATICCALL / CREATE / CREATE2
to recorder contracts (which report CALLER and ORIGIN and call an inner recorder), cheatcode calls
in between (must not consume a prank), deal / store / load / etch / warp / roll / fee / chainId /
coinbase / difficulty with concrete and symbolic arguments followed by reads on the targeted and on
other accounts, and svm.create* / vm.random* with every width.  Every action appends what it
observed to the returned buffer.  Oracle: reference EVM + cheatcode layer (vfw/cheats.py) with the
semantics fixed by tests/regression/test/Prank.t.sol and tests/expected/all.json; fresh values are
oracle inputs (arbitrary in-range values bound to the k-th created symbol on both sides), which
checks width, encoding, range and independence.
"""

from __future__ import annotations

import random
import re

import z3

from vfw import asm, cheats, diff, gen, refevm, sym, symeval
from vfw.cheats import sel
from vfw.hyp import ddmin, run_cases, st
from vfw.runner import Acc

PROPERTY = "C14"
LEVEL = "exploration"
RULE = (
    "case = history of <=10 actions (prank family, recorder calls/creations, interleaved cheatcode calls, state "
    "cheatcodes + read-back, fresh-symbol cheatcodes of every width) + 4 inputs, each with an independent oracle "
    "valuation of the fresh symbols. Non-trivial = a prank followed by >=2 calls, or a prank inside a callee, or a state "
    "cheatcode read back on two accounts, or >=2 fresh symbols; distinct by (history, input)."
)
ASSUMPTIONS = [
    "Foundry semantics taken from the repository's regression tests: per-frame prank, consumed by the next call/creation of that frame only, sender for that call only, origin for the whole sub-tree, startPrank until stopPrank, overwriting an active prank is an error",
    "DELEGATECALL/CALLCODE under an active prank and cheatcodes inside failing or static frames are not generated (repository tests are silent)",
    "fresh values: the k-th created symbol (name suffix _kk) is bound to the k-th oracle value on both sides",
]
WATCHDOG_S = {"quick": 2400, "thorough": 10800}

MANIFEST = {
    "technique": "model-based history testing of cheatcodes: generated action sequences compiled to bytecode, SEVM.run vs reference EVM + independent cheatcode model; fresh symbols handled as oracle inputs (range/encoding/independence via arbitrary in-range tuples)",
    "text": "Generated histories of prank-family calls interleaved with calls, creations and other cheatcode calls across nested frames, state cheatcodes with concrete and symbolic arguments read back on the targeted and other accounts, and every svm.create*/vm.random* flavour (all widths 1..256, byte sizes 0..100, min/max pairs) are executed symbolically and on the reference EVM with an independently written cheatcode layer; every observation (msg.sender, tx.origin in each frame, balances, storage, code size, block fields, returned fresh values) must agree for every input, and arbitrary in-range values of the fresh symbols must be admitted while out-of-range ones are not.",
    "note": "trusts vfw/cheats.py (Foundry semantics as documented by the repo's Solidity regression tests) and refevm",
}

ROOT, R1, R2, P1 = 0x1000, 0x2000, 0x2001, 0x2002
HEVM, SVM = refevm.HEVM, refevm.SVM
NAMED = [0xA11CE, 0xB0B, R1, R2, ROOT, 0xCAFE]
OUT = 0x800
CD = 0x500


def rec_body(inner):
    b = [["mstore", 0, ["env", "CALLER"]], ["mstore", 32, ["env", "ORIGIN"]]]
    if inner:
        b += [["xcallf", inner, 0, 0, 64, 64, 0xA0]]
    b += [["mstore", 128, ["env", "TIMESTAMP"]], ["return", 0, 160]]
    return b


def p1_body():
    # pranks for itself, then calls R2 twice (second call must not be pranked)
    return [
        ["memw", CD, sel("prank(address)").to_bytes(4, "big").hex() + (0xD00D).to_bytes(32, "big").hex()], ["xcall", HEVM, CD, 36, 0, 0],
        ["xcallf", R2, 0, 0, 0, 64, 0x1E0], ["xcallf", R2, 0, 0, 64, 64, 0x1E0], ["return", 0, 128],
    ]


INIT_REC = asm.creation_code(asm.assemble(["STOP"]), asm.assemble(["CALLER", ("PUSH", 1), "SSTORE", "ORIGIN", ("PUSH", 2), "SSTORE"])).hex()


def enc(sig, words, tail=b""):
    return sel(sig).to_bytes(4, "big") + b"".join((w & ((1 << 256) - 1)).to_bytes(32, "big") for w in words) + tail


def cheat_stmts(addr, sig, args, region=None, tail=b""):
    """args: list of word exprs (["c",v] / ["cd",i] ...) -> statements calling the cheatcode"""
    data = enc(sig, [a[1] if a[0] == "c" else 0 for a in args], tail)
    out = [["memw", CD, data.hex()]]
    for i, a in enumerate(args):
        if a[0] != "c":
            out.append(["mstore", CD + 4 + 32 * i, a])
    out.append(["xcall", addr, CD, len(data), 0, 0])
    if region is not None:
        out.append(["raw", asm.assemble(["RETURNDATASIZE", ("PUSH", 0), ("PUSH", region), "RETURNDATACOPY", "RETURNDATASIZE", ("PUSH", region + 0xE0), "MSTORE"]).hex()])
    return out


FRESH = {
    "uintN": [("createUint(uint256,string)", SVM, True), ("randomUint(uint256)", HEVM, False)],
    "intN": [("createInt(uint256,string)", SVM, True), ("randomInt(uint256)", HEVM, False)],
    "uint256": [("createUint256(string)", SVM, "nameonly"), ("randomUint()", HEVM, None)],
    "int256": [("createInt256(string)", SVM, "nameonly"), ("randomInt()", HEVM, None)],
    "bytes32": [("createBytes32(string)", SVM, "nameonly")],
    "address": [("createAddress(string)", SVM, "nameonly"), ("randomAddress()", HEVM, None)],
    "bool": [("createBool(string)", SVM, "nameonly"), ("randomBool()", HEVM, None)],
    "bytes4": [("createBytes4(string)", SVM, "nameonly"), ("randomBytes4()", HEVM, None)],
    "bytes8": [("randomBytes8()", HEVM, None)],
    "bytesN": [("createBytes(uint256,string)", SVM, True), ("createString(uint256,string)", SVM, True), ("randomBytes(uint256)", HEVM, False)],
    "minmax": [("createUint256(string,uint256,uint256)", SVM, "minmax"), ("randomUint(uint256,uint256)", HEVM, "minmax0")],
}
NAME_TAIL = (1).to_bytes(32, "big") + b"x" + bytes(31)  # string "x"


def compile_actions(actions):
    body = []
    for i, a in enumerate(actions):
        body += compile_action(a, OUT + 0x100 * i)
    body.append(["return", OUT, 0x100 * len(actions)])
    return gen.compile_body(body)


def compile_action(a, reg):
    body = []
    if True:
        k = a[0]
        if k == "ifact":
            # fork on a calldata bit: the two sides perform different actions (sibling paths)
            return [["if", ["op2", "AND", ["cd", a[1]], ["c", 1]], compile_action(a[2], reg), compile_action(a[3], reg)]]
        if k in ("prank", "startPrank"):
            body += cheat_stmts(HEVM, f"{k}(address)", [a[1]])
        elif k in ("prank2", "startPrank2"):
            body += cheat_stmts(HEVM, f"{k[:-1]}(address,address)", [a[1], a[2]])
        elif k == "stopPrank":
            body += cheat_stmts(HEVM, "stopPrank()", [])
        elif k == "callrec":
            body += [["call", a[1], ["c", a[2]], ["c", 0], 0, 0, reg, 160, reg + 0xE0]]
        elif k == "create":
            body += [["create", a[1], ["c", 0], INIT_REC, ["c", a[2]], reg]]
        elif k == "noop":
            body += cheat_stmts(HEVM, "load(address,bytes32)", [["c", R2], ["c", 0]])
        elif k == "deal":
            body += cheat_stmts(HEVM, "deal(address,uint256)", [a[1], a[2]])
        elif k == "store":
            body += cheat_stmts(HEVM, "store(address,bytes32,bytes32)", [a[1], a[2], a[3]])
        elif k == "load":
            body += cheat_stmts(HEVM, "load(address,bytes32)", [a[1], a[2]], reg)
        elif k == "etch":
            code = bytes.fromhex(a[2])
            tail = len(code).to_bytes(32, "big") + code + bytes((-len(code)) % 32)
            body += cheat_stmts(HEVM, "etch(address,bytes)", [a[1], ["c", 0x40]], None, tail)
            body += [["mstore", reg, ["extsize", a[1]]], ["extcopy", a[1], reg + 32, 0, 64]]
        elif k == "blockset":
            body += cheat_stmts(HEVM, {"warp": "warp(uint256)", "roll": "roll(uint256)", "fee": "fee(uint256)", "chainId": "chainId(uint256)", "coinbase": "coinbase(address)", "difficulty": "difficulty(uint256)"}[a[1]], [a[2]])
        elif k == "blockread":
            for j, n in enumerate(["TIMESTAMP", "NUMBER", "BASEFEE", "CHAINID", "COINBASE", "DIFFICULTY"]):
                body.append(["mstore", reg + 32 * j, ["env", n]])
        elif k == "balread":
            body += [["mstore", reg, ["bal", a[1]]], ["mstore", reg + 32, ["bal", ["c", 0xB0B]]], ["mstore", reg + 64, ["env", "SELFBALANCE"]]]
        elif k == "sread":
            body += [["mstore", reg, ["sload", a[1]]]]
        elif k == "fresh":
            sig, addr, mode = FRESH[a[1]][a[2] % len(FRESH[a[1]])]
            if a[1] == "bytesN":
                # decode like abi.decode does (offset word, length word, then `length` bytes): both a
                # padded and an unpadded tail are accepted, a short one runs out of bounds
                args = [["c", a[3]], ["c", 0x40]] if mode is True else [["c", a[3]]]
                body += cheat_stmts(addr, sig, args, None, NAME_TAIL if mode is True else b"")
                body += [["rdcopy", reg, 0, 64]] + ([["rdcopy", reg + 64, 64, a[3]]] if a[3] else [])
            elif mode is True:
                body += cheat_stmts(addr, sig, [["c", a[3]], ["c", 0x40]], reg, NAME_TAIL)
            elif mode is False:
                body += cheat_stmts(addr, sig, [["c", a[3]]], reg)
            elif mode == "nameonly":
                body += cheat_stmts(addr, sig, [["c", 0x20]], reg, NAME_TAIL)
            elif mode == "minmax":
                body += cheat_stmts(addr, sig, [["c", 0x60], ["c", a[3]], ["c", a[4]]], reg, NAME_TAIL)
            elif mode == "minmax0":
                body += cheat_stmts(addr, sig, [["c", a[3]], ["c", a[4]]], reg)
            else:
                body += cheat_stmts(addr, sig, [], reg)
    return body


# ---------------------------------------------------------------- strategies

def addr_st(symbolic=True):
    opts = [st.sampled_from(NAMED).map(lambda a: ["c", a])]
    if symbolic:
        opts.append(st.integers(0, gen.NW - 1).map(lambda i: ["op2", "AND", ["cd", i], ["c", (1 << 160) - 1]]))
    return st.one_of(*opts)


def word_st():
    return st.one_of(st.integers(0, 5).map(lambda v: ["c", v]), st.integers(0, 1 << 128).map(lambda v: ["c", v]), st.integers(0, gen.NW - 1).map(lambda i: ["cd", i]))


def action_st():
    conc_addr = st.sampled_from(NAMED).map(lambda a: ["c", a])
    existing = st.sampled_from([R1, R2, ROOT]).map(lambda a: ["c", a])
    bits = st.one_of(st.integers(1, 256), st.sampled_from([1, 7, 8, 9, 64, 128, 160, 255, 256]))
    return st.one_of(
        st.builds(lambda a: ["prank", a], addr_st()),
        st.builds(lambda a: ["prank", a], addr_st()),
        st.builds(lambda a, o: ["prank2", a, o], addr_st(), addr_st()),
        st.builds(lambda a: ["startPrank", a], addr_st()),
        st.builds(lambda a, o: ["startPrank2", a, o], addr_st(), addr_st()),
        st.just(["stopPrank"]),
        st.builds(lambda k, t: ["callrec", k, t], st.sampled_from(["CALL", "CALL", "STATICCALL"]), st.sampled_from([R1, R1, R2, P1])),
        st.builds(lambda k, t: ["callrec", k, t], st.sampled_from(["CALL", "CALL", "STATICCALL"]), st.sampled_from([R1, R1, R2, P1])),
        st.builds(lambda k, s: ["create", k, s], st.sampled_from(["CREATE", "CREATE2"]), st.integers(0, 3)),
        st.just(["noop"]),
        # dealt amounts stay <= 2^127 (documented modelling assumption: balances <= 2^128)
        st.builds(lambda a, v: ["deal", a, v], addr_st(), st.one_of(st.integers(0, 5).map(lambda v: ["c", v]), st.integers(0, 1 << 120).map(lambda v: ["c", v]), st.integers(0, gen.NW - 1).map(lambda i: ["op2", "AND", ["cd", i], ["c", (1 << 100) - 1]]))),
        st.builds(lambda a, s, v: ["store", a, s, v], existing, st.integers(0, 3).map(lambda v: ["c", v]), word_st()),
        st.builds(lambda a, s: ["load", a, s], st.sampled_from([R1, R2, ROOT, 0xB0B]).map(lambda a: ["c", a]), st.integers(0, 3).map(lambda v: ["c", v])),
        st.builds(lambda a, c: ["etch", a, c], st.sampled_from([0xB0B, R2, 0xE7C4]).map(lambda a: ["c", a]), st.binary(max_size=40).map(lambda b: b.hex())),
        st.builds(lambda w, v: ["blockset", w, v], st.sampled_from(["warp", "roll", "fee", "chainId", "coinbase", "difficulty"]), st.one_of(st.integers(0, 1 << 64).map(lambda v: ["c", v]), st.integers(0, gen.NW - 1).map(lambda i: ["op2", "AND", ["cd", i], ["c", (1 << 160) - 1]]))),
        st.just(["blockread"]),
        st.builds(lambda a: ["balread", a], addr_st()),
        st.builds(lambda s: ["sread", s], st.integers(0, 3).map(lambda v: ["c", v])),
        st.builds(lambda k, v, b: ["fresh", k, v, b], st.sampled_from(["uintN", "intN"]), st.integers(0, 3), bits),
        st.builds(lambda k, v: ["fresh", k, v, 0], st.sampled_from(["uint256", "int256", "bytes32", "address", "bool", "bytes4", "bytes8"]), st.integers(0, 3)),
        st.builds(lambda v, n: ["fresh", "bytesN", v, n], st.integers(0, 3), st.one_of(st.integers(0, 100), st.sampled_from([0, 1, 31, 32, 33, 64, 100]))),
        st.builds(lambda v, lo, hi: ["fresh", "minmax", v, min(lo, hi), max(lo, hi)], st.integers(0, 3),
                  st.one_of(st.integers(0, 10), st.sampled_from([0, 1, (1 << 255) - 1, 1 << 255, (1 << 256) - 2, (1 << 256) - 1])),
                  st.one_of(st.integers(0, 10), st.sampled_from([0, 1, (1 << 255) - 1, 1 << 255, (1 << 256) - 2, (1 << 256) - 1]))),
    )


MAXU = (1 << 256) - 1
PAIRS = [(0, MAXU), (1, MAXU), (0, MAXU - 1), (MAXU, MAXU), (0, 0), ((1 << 255) - 1, 1 << 255), (5, 5), (0, 1)]


def simple_action_st():
    return st.one_of(
        st.builds(lambda a: ["prank", a], addr_st(False)), st.builds(lambda a: ["startPrank", a], addr_st(False)), st.just(["stopPrank"]), st.just(["noop"]),
        st.builds(lambda k, t: ["callrec", k, t], st.sampled_from(["CALL", "STATICCALL"]), st.sampled_from([R1, R2])),
        st.builds(lambda a, o: ["prank2", a, o], addr_st(False), addr_st(False)),
    )


def any_action_st():
    return st.one_of(
        action_st(), action_st(), action_st(), action_st(),
        st.builds(lambda i, a, b: ["ifact", i, a, b], st.integers(0, gen.NW - 1), simple_action_st(), simple_action_st()),
        st.builds(lambda v, p: ["fresh", "minmax", v, p[0], p[1]], st.integers(0, 3), st.sampled_from(PAIRS)),
    )


def case_st():
    return st.builds(lambda acts, seed: {"actions": acts, "seed": seed}, st.lists(any_action_st(), min_size=2, max_size=10), st.integers(0, 1 << 30))


def build_world(case):
    return {
        "accounts": [
            {"addr": ROOT, "code": compile_actions(case["actions"]).hex(), "balance": 1000},
            {"addr": R1, "code": gen.compile_body(rec_body(R2)).hex(), "balance": 7},
            {"addr": R2, "code": gen.compile_body(rec_body(None)).hex(), "balance": 0},
            {"addr": P1, "code": gen.compile_body(p1_body()).hex(), "balance": 0},
        ],
        "target": ROOT, "cdlen": 32 * gen.NW, "cdwords": case.get("seed", 0) % 2 == 0, "caller": "sym", "origin": "sym", "value": 0,
    }


_ARGS = None
_NN = re.compile(r"_(\d+)$")


def fresh_val(salt):
    def f(k, bits):
        r = random.Random(salt * 1000003 + k)
        c = r.random()
        if bits == 0:
            return 0
        if c < 0.25:
            return (1 << bits) - 1
        if c < 0.4:
            return 1 << (bits - 1)
        if c < 0.5:
            return 0
        return r.getrandbits(bits)

    return f


def run_case(case, acc=None):
    global _ARGS
    if _ARGS is None:
        _ARGS = sym.base_config(depth=30000)
    world = build_world(case)
    rng = random.Random(case.get("seed", 0))
    inputs = case.get("inputs") or diff.boundary_inputs(world, rng, 4)
    fails = []
    try:
        sevm, exs = sym.run_world(world, _ARGS)
    except Exception as e:
        import traceback

        tb = traceback.extract_tb(e.__traceback__)
        where = next((fr.name for fr in reversed(tb) if "halmos" in fr.filename), "harness")
        if where == "harness":
            raise
        return [(["raise", type(e).__name__, where], repr(e)[:300])]
    ncovered = 0
    for ii, inp in enumerate(inputs):
        expect_error = None
        covered_any = False
        for ex in exs:
            ch = cheats.Cheats(fresh_value=fresh_val(case.get("seed", 0) + ii))
            try:
                res, evm = diff.run_ref(world, inp, new_addresses=diff.created_addresses(ex.context), cheats=ch)
            except cheats.CheatError as e:
                expect_error = str(e)
                res = None
            except refevm.Unsupported:
                continue
            env = diff.mk_env(world, inp)
            vals = {k: raw for (k, kind, bits, raw) in ch.fresh_log}

            def dconst(name, sort, vals=vals):
                if name.startswith("halmos_"):
                    m = _NN.search(name)
                    if m and int(m.group(1)) in vals:
                        return vals[int(m.group(1))]
                    return 0
                return None

            env.default_const = dconst
            ok, _ = diff.path_covers(ex, env)
            if not ok:
                continue
            covered_any = True
            out = sym.outcome(ex)
            if res is None:
                if not out.startswith("stuck"):
                    fails.append((["cheat-error-not-reported"], f"reference: {expect_error}; halmos path {out}; actions={case['actions']}"))
                continue
            if out.startswith("stuck"):
                fails.append((["unexpected-error"], f"halmos {out}: {ex.context.output.error!r} but the reference succeeds; actions={case['actions']}"))
                continue
            for b, d in diff.compare_path(sevm, ex, env, res, evm, world, {"probe_addrs": [0xB0B, 0xA11CE, 0xCAFE, 0xE7C4, 0xD00D]}):
                if isinstance(b, str):
                    continue
                # name the action whose 256-byte output region differs first
                if b[-2:] == ["data", "success"] or b[:1] == ["data"]:
                    try:
                        got = sym.bytevec_value(ex.context.output.data, env)
                        idx = next((i for i in range(len(case["actions"])) if got[256 * i : 256 * i + 256] != res.data[256 * i : 256 * i + 256]), None)
                        if idx is not None:
                            act = case["actions"][idx]
                            b = ["observation", act[0] + (":" + str(act[1]) if act[0] in ("fresh", "blockset", "callrec") else "")]
                            d = f"action #{idx} {act}: got {got[256*idx:256*idx+256].hex()[:200]} expected {res.data[256*idx:256*idx+256].hex()[:200]} | " + d[-300:]
                    except Exception:
                        pass
                fails.append((b, d + f" | actions={case['actions']}"))
            # out-of-range fresh values must not be admitted (range / encoding)
            for (k, kind, bits, raw) in ch.fresh_log:
                if kind in ("minmax", "minmax_named"):
                    act = [a for a in case["actions"] if a[0] == "fresh" and a[1] == "minmax"]
                    for a in act:
                        lo, hi = a[3], a[4]
                        for bad in ([lo - 1] if lo > 0 else []) + ([hi + 1] if hi < (1 << 256) - 1 else []):
                            env2 = diff.mk_env(world, inp)
                            v2 = dict(vals)
                            v2[k] = bad
                            env2.default_const = lambda name, sort, v2=v2: (v2.get(int(_NN.search(name).group(1)), 0) if name.startswith("halmos_") and _NN.search(name) else None)
                            ok2, _ = diff.path_covers(ex, env2)
                            if ok2 and sum(1 for x in ch.fresh_log if x[1].startswith("minmax")) == 1:
                                fails.append((["fresh-out-of-range-admitted"], f"value {bad} outside [{lo},{hi}] admitted; actions={case['actions']}"))
            if fails:
                break
        ncovered += covered_any
        if not covered_any and not any(sym.outcome(e).startswith("stuck") for e in exs):
            fails.append((["uncovered"], f"no path admits input {inp} with in-range fresh values; actions={case['actions']}"))
        if fails:
            break
    if acc is not None:
        acts = case["actions"]
        kinds = [a[0] for a in acts] + [x[0] for a in acts if a[0] == "ifact" for x in a[2:4]]
        pr = [i for i, k in enumerate(kinds) if "rank" in k and k != "stopPrank"]
        calls_after = sum(1 for i, k in enumerate(kinds) if k in ("callrec", "create") and pr and i > pr[0])
        nt = ncovered > 0 and (calls_after >= 2 or any(a[0] == "callrec" and a[2] == P1 for a in acts) or (any(k in ("deal", "store", "etch") for k in kinds) and any(k in ("balread", "load", "sread") for k in kinds)) or kinds.count("fresh") >= 2)
        acc.case(case, nt, klass=sorted(set(kinds)), sample={"actions": acts})
    return fails


def shards(tier):
    n = 350 if tier == "quick" else 4000
    return [{"n": n} for _ in range(16)]


def run_shard(spec, seed, tier):
    acc = Acc()

    def body(case):
        for b, d in run_case(case, acc):
            acc.fail(b, case, d)

    run_cases(case_st(), body, spec["n"], seed)
    return acc


def replay(case):
    return [{"bucket": b, "detail": d} for b, d in run_case(case)]


def shrink(case, same):
    return dict(case, actions=ddmin(case["actions"], lambda x: same(dict(case, actions=x))))
