"""C09 — message calls are atomic and see the right context.

Call trees of depth <= 4 over a pool of four generated contracts A -> {B,C,D}, B -> {C,D}, C -> {D}.
Every frame records CALLER / CALLVALUE / ADDRESS / ORIGIN / CODESIZE / CALLDATASIZE into its return
buffer, performs effects (SSTORE, TSTORE, LOG, value transfers, nested CALL / STATICCALL /
DELEGATECALL / CALLCODE / CREATE / CREATE2 with concrete or symbolic value and arguments) and ends in
one of {RETURN, REVERT, INVALID, out-of-bounds RETURNDATACOPY, stack underflow, bad jump}.  The
root returns every success flag and every callee's return buffer.  Oracle: the reference EVM
(journaled state, EIP-214 static rules, value-transfer checks) through the C01 comparison: output
data (= what each frame observed + flags), storage, transient storage, balances, code and logs of
all accounts.
"""

from __future__ import annotations

import random

from props import c01_sound as c01
from vfw import asm, diff, gen, sym
from vfw.hyp import ddmin, run_cases, st
from vfw.runner import Acc

PROPERTY = "C09"
LEVEL = "exploration"
RULE = (
    "case = call tree over 4 generated contracts (acyclic, depth<=4) with per-frame effects and outcomes; inputs: 4 random/"
    "boundary + z3-guided per reported path. Non-trivial = >=2 frames of which >=1 fails after an effect, or a static "
    "frame attempting a write, or a value transfer with a symbolic amount; distinct by (tree, input)."
)
ASSUMPTIONS = c01.ASSUMPTIONS + ["call trees are acyclic (no unbounded recursion); depth <= 4, well below the 1024 limit / 63-64 rule"]
WATCHDOG_S = {"quick": 2400, "thorough": 10800}

MANIFEST = {
    "technique": "differential testing of nested message-call/creation histories: generated call trees with per-frame effects and failure modes run through SEVM.run vs the journaled reference EVM; context values are returned up the tree so that every frame's view is compared",
    "text": "Generated call trees (CALL, STATICCALL, DELEGATECALL, CALLCODE, CREATE, CREATE2; per-frame SSTORE/TSTORE/LOG/value transfer; outcomes RETURN, REVERT, INVALID, out-of-bounds returndata, underflow) are explored symbolically with symbolic calldata, value, caller and balances; for every concrete input admitted by a reported path the reference EVM must give the same flags, per-frame context (sender, value, address, origin), return data, storage, transient storage, balances, code and logs - so a rollback that forgets something, a wrong context field or a missing static/insufficient-balance failure shows up as a difference.",
    "note": "trusts vfw/refevm.py (EIP-214, journaling, value checks) and symeval; addresses of created accounts are taken from halmos (naming abstraction)",
}

A, B, C, D = 0x1000, 0x2000, 0x2001, 0x2002
POOL = [A, B, C, D]
CTX = 0x200  # context buffer: 6 words
RET = 0x2C0  # callee return areas: 0xC0 bytes each

_RT = asm.assemble(["CALLER", ("PUSH", 1), "SSTORE", ("PUSH", 32), ("PUSH", 0), "RETURN"])
INITS = [
    asm.creation_code(_RT, asm.assemble([("PUSH", 7), ("PUSH", 3), "SSTORE", "CALLVALUE", ("PUSH", 4), "SSTORE", "CALLER", ("PUSH", 5), "SSTORE", "ORIGIN", ("PUSH", 6), "SSTORE"])).hex(),
    asm.assemble([("PUSH", 9), ("PUSH", 3), "SSTORE", ("PUSH", 0xAB), ("PUSH", 0), "MSTORE8", ("PUSH", 1), ("PUSH", 0), "REVERT"]).hex(),
    asm.assemble([("PUSH", 9), ("PUSH", 3), "SSTORE", "INVALID"]).hex(),
    asm.creation_code(b"\x00").hex(),
]
# constructor that fails iff it receives no value: REVERT if CALLVALUE == 0 else deploy _RT
INIT_NEEDS_VALUE = asm.creation_code(_RT, asm.assemble(["CALLVALUE", ("PUSHL", "ok"), "JUMPI", ("PUSH", 0), ("PUSH", 0), "REVERT", ("LABEL", "ok")])).hex()
INITS.append(INIT_NEEDS_VALUE)

PROLOGUE = [
    ["mstore", CTX, ["env", "CALLER"]],
    ["mstore", CTX + 32, ["env", "CALLVALUE"]],
    ["mstore", CTX + 64, ["env", "ADDRESS"]],
    ["mstore", CTX + 96, ["env", "ORIGIN"]],
    ["mstore", CTX + 128, ["env", "CODESIZE"]],
    ["mstore", CTX + 160, ["env", "CALLDATASIZE"]],
]


def val_st():
    return st.one_of(
        st.just(["c", 0]), st.sampled_from([1, 2, 3, 1000]).map(lambda v: ["c", v]),
        st.integers(0, gen.NW - 1).map(lambda i: ["cd", i]),
        st.integers(0, gen.NW - 1).map(lambda i: ["op2", "AND", ["cd", i], ["c", 7]]),
        st.just(["env", "CALLVALUE"]), st.just(["env", "SELFBALANCE"]),
        st.just(["op2", "ADD", ["env", "SELFBALANCE"], ["c", 1]]),
    )


def word_st():
    return st.one_of(st.integers(0, 5).map(lambda v: ["c", v]), st.integers(0, gen.NW - 1).map(lambda i: ["cd", i]), st.just(["env", "CALLER"]), st.just(["env", "CALLVALUE"]), st.just(["mload", RET]), st.just(["mload", RET + 32]))


def effect_st(level, slot_i):
    lower = POOL[level + 1 :]
    slot = st.integers(0, 4).map(lambda v: ["c", v])
    opts = [
        st.builds(lambda k, v: ["sstore", k, v], slot, word_st()),
        st.builds(lambda k, v: ["sstore", k, v], slot, word_st()),
        st.builds(lambda k, v: ["tstore", k, v], slot, word_st()),
        st.builds(lambda ts: ["log", CTX, 32, ts], st.lists(word_st(), max_size=2)),
        st.builds(lambda k: ["mstore", CTX + 0xA0 + 0, ["op2", "ADD", ["sload", k], ["tload", k]]], slot),
    ]
    if lower:
        tgt = st.one_of(
            st.sampled_from(lower).map(lambda a: ["c", a]),
            st.sampled_from(lower).map(lambda a: ["c", a]),
            st.sampled_from([0x9999, 4]).map(lambda a: ["c", a]),
            st.integers(0, gen.NW - 1).map(lambda i: ["op2", "ADD", ["op2", "AND", ["cd", i], ["c", 3]], ["c", min(lower)]]),
        )
        opts += [
            st.builds(
                lambda kind, t, v, k, rs: ["call", kind, t, v, CTX, 0xC0, RET + 0xC0 * k, rs, 0x100 + 32 * k],
                st.sampled_from(["CALL", "CALL", "STATICCALL", "DELEGATECALL", "CALLCODE"]), tgt, val_st(), st.integers(0, 2), st.sampled_from([0xC0, 0xC0, 0x20, 0]),
            )
        ] * 3
    opts += [
        st.builds(
            lambda kind, v, ini, salt, k: ["create", kind, v, ini, salt, 0x160 + 32 * k],
            st.sampled_from(["CREATE", "CREATE2"]), val_st(), st.sampled_from(INITS), st.one_of(st.integers(0, 3).map(lambda c: ["c", c]), st.just(["cd", 1])), st.integers(0, 1),
        )
    ]
    return st.one_of(*opts)


def outcome_st():
    return st.one_of(
        st.just(["return", 0x100, 0x400]),
        st.just(["return", 0x100, 0x400]),
        st.just(["return", CTX, 0xC0]),
        st.just(["revert", CTX, 0x40]),
        st.just(["invalid"]),
        st.just(["underflow"]),
        st.just(["badjump"]),
        st.just(["rdcopy", 0, 0x1000, 1]),  # out-of-bounds RETURNDATACOPY (then falls through to STOP)
        st.just(["stop"]),
    )


def frame_st(level):
    eff = st.lists(effect_st(level, 0), min_size=1 if level < 2 else 0, max_size=5 if level == 0 else 3)
    guard = st.one_of(st.none(), st.builds(lambda i, c: ["op2", "EQ", ["op2", "AND", ["cd", i], ["c", 3]], ["c", c]], st.integers(0, gen.NW - 1), st.integers(0, 3)))

    def mk(effs, out, g, out2, calls_first, probe, pv):
        if probe == 0 and level < 3:
            # a value-bearing CALL as the very first effect (what a static frame must refuse)
            effs = [["call", "CALL", ["c", POOL[level + 1]], pv, CTX, 0xC0, RET, 0xC0, 0x100]] + effs
        if probe == 1 and level == 0:
            # a creation that fails, retried with the same salt and init code but enough value: the failed
            # attempt must leave nothing behind at the address (the retry must not see a collision)
            kind = "CREATE2" if pv != ["c", 0] else "CREATE"
            effs = [["create", kind, ["c", 0], INIT_NEEDS_VALUE, ["c", 2], 0x160], ["create", kind, ["c", 1], INIT_NEEDS_VALUE, ["c", 2], 0x180]] + effs
        if calls_first:
            # reads and calls before any other write: lets a static frame reach its value-bearing CALL
            effs = [e for e in effs if e[0] == "call"] + [e for e in effs if e[0] != "call"]
        body = list(PROLOGUE) + effs
        if g is not None:
            # outcome depends on calldata: two different endings
            body.append(["if", g, [out], [out2]])
            body.append(["stop"])
        else:
            body.append(out)
            if out[0] == "rdcopy":
                body.append(["stop"])
        return body

    return st.builds(mk, eff, outcome_st(), guard, outcome_st(), st.booleans(), st.integers(0, 4), val_st())


def case_st():
    return st.builds(
        lambda a, b, c, d, seed, static: {"bodies": [a, b, c, d], "seed": seed, "static": static},
        frame_st(0), frame_st(1), frame_st(2), frame_st(3), st.integers(0, 1 << 30), st.sampled_from([False, False, True]),
    )


def build_world(case):
    codes = [gen.compile_body(b) for b in case["bodies"]]
    return {
        "accounts": [
            {"addr": A, "code": codes[0].hex(), "balance": "sym"},
            {"addr": B, "code": codes[1].hex(), "balance": "sym"},
            {"addr": C, "code": codes[2].hex(), "balance": 5},
            {"addr": D, "code": codes[3].hex(), "balance": 0},
        ],
        "target": A,
        "cdlen": 32 * gen.NW,
        "cdwords": case.get("seed", 0) % 2 == 0,
        "caller": "sym",
        "origin": "sym",
        "value": "sym",
        "static": bool(case.get("static")),
    }


_ARGS = None


def _calls(body):
    for s_ in body:
        if s_[0] == "call" and s_[1] == "CALL":
            yield s_
        elif s_[0] == "if":
            yield from _calls(s_[2])
            yield from _calls(s_[3])


def run_case(case, acc=None):
    global _ARGS
    if _ARGS is None:
        _ARGS = sym.base_config(depth=30000)
    world = build_world(case)
    rng = random.Random(case.get("seed", 0))
    inputs = case.get("inputs") or diff.boundary_inputs(world, rng, 4)
    # balances/values in a small colliding domain so that insufficient-balance branches are hit
    for inp in inputs[:2]:
        if not case.get("inputs"):
            inp["value"] = rng.choice([0, 1, 2, 3])
            for k in inp["bal"]:
                inp["bal"][k] = rng.choice([0, 1, 2, 3, 8])
    try:
        vk = "const-value" if all(st_[3][0] == "c" for b in case["bodies"] for st_ in _calls(b)) else "symbolic-value"
        r = diff.check_world(world, inputs, _ARGS, opts={"probe_addrs": [0x9999, 4], "value_kind": vk}, guided=not case.get("inputs"))
    except RecursionError:
        return []
    if acc is not None:
        if r.get("crash"):
            acc.exclude("crash:" + r["crash"])
        txt = repr(case["bodies"])
        kinds = [k for k in ("'CALL'", "'STATICCALL'", "'DELEGATECALL'", "'CALLCODE'", "'CREATE'", "'CREATE2'") if k in txt]
        fails_after_effect = any(b[-1][0] in ("revert", "invalid", "underflow", "badjump", "rdcopy") or (len(b) > 1 and b[-2][0] == "if") for b in case["bodies"][1:])
        nt = r["stats"]["covered"] > 0 and len(kinds) >= 1 and (fails_after_effect or "'STATICCALL'" in txt or case.get("static") or "SELFBALANCE" in txt)
        np_ = r["stats"]["paths"]
        acc.case(case, nt, klass=[k.strip("'") for k in kinds] + (["static-root"] if case.get("static") else []) + [f"paths:{'1' if np_ <= 1 else '2-4' if np_ <= 4 else '5-16' if np_ <= 16 else '17+'}"],
                 sample={"bodies": [b[len(PROLOGUE):] for b in case["bodies"]], "stats": r["stats"]})
        for k in ("inputs", "covered", "uncovered", "guided", "stuck_paths", "multi_cover"):
            acc.extra["n_" + k] = acc.extra.get("n_" + k, 0) + r["stats"].get(k, 0)
    return r["fails"]


def shards(tier):
    n = 90 if tier == "quick" else 1800
    return [{"n": n} for _ in range(16)]


def run_shard(spec, seed, tier):
    acc = Acc()

    def body(case):
        for b, d in run_case(case, acc):
            acc.fail(b, case, d)

    run_cases(case_st(), body, spec["n"], seed)
    return acc


def replay(case):
    return [{"bucket": b, "detail": d} for b, d in run_case(case)]


def shrink(case, same):
    bodies = [list(b) for b in case["bodies"]]
    for i in range(4):
        def f(x, i=i):
            bb = list(bodies)
            bb[i] = x
            return same(dict(case, bodies=bb))
        if len(bodies[i]) > 1:
            bodies[i] = ddmin(bodies[i], f)
    return dict(case, bodies=bodies)
