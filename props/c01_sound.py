"""C01 — every reported execution path is a real EVM behaviour.

Generated multi-contract programs (typed DSL -> bytecode, optionally mutated at byte level, or raw
byte strings over a weighted opcode alphabet) are executed symbolically (SEVM.run, symbolic
calldata / caller / origin / value / balances).  For random, boundary and *model-guided* concrete
inputs (z3 proposes a model of each reported path's constraints; always re-decided) the reference
EVM (vfw/refevm.py) executes the same bytecode; every reported path whose constraints the input
satisfies (decided by symeval under the standard interpretation) must have exactly the reference
end state: outcome class, return/revert data, balances, code, storage, logs.
"""

from __future__ import annotations

import random

from vfw import asm, diff, gen, sym
from vfw.hyp import ddmin, run_cases, st
from vfw.runner import Acc

PROPERTY = "C01"
LEVEL = "exploration"
RULE = (
    "case = (program: 1-3 contracts from the statement/expression DSL, optional byte-level mutations or a raw byte "
    "string; inputs: 4 random/boundary + z3-guided models of every reported path). A (program,input) pair is "
    "non-trivial if the program has >=3 statements and the input satisfied a reported path that has >=1 branching "
    "condition or touched storage/memory/a call; distinct by hash of (program, input)."
)
ASSUMPTIONS = [
    "no gas metering: reference runs with unbounded gas; GAS/GASPRICE values are oracle inputs fed to both sides",
    "CREATE/CREATE2 addresses are taken from the halmos trace (equality modulo address naming); freshness checked by the reference",
    "memory offsets/sizes are concrete and < 2^20; balances <= 2^128; hash assumptions (non-zero, no collision) hold for real keccak on generated data",
    "state of a failed top-level transaction is not compared (callers discard it); failed sub-frames are (through the caller's view)",
    "paths ending in an internal halmos error (stuck) are not reported behaviours (C10 owns them)",
]
WATCHDOG_S = {"quick": 2400, "thorough": 10800}

MANIFEST = {
    "technique": "differential testing of SEVM.run against an independent concrete reference EVM on Hypothesis-generated multi-contract programs, with symeval deciding which reported path admits each concrete input and z3 used only to propose inputs",
    "text": "Thousands of generated programs (arithmetic, memory, storage incl. mapping/array slots, hashing, logs, bounded loops, nested CALL/STATICCALL/DELEGATECALL/CALLCODE, CREATE/CREATE2, returndata, byte-level mutants and raw byte strings) are explored symbolically; for random, boundary and solver-proposed concrete inputs the reference EVM runs the same bytecode and every reported path admitting the input must agree on outcome class, output data, balances, code, storage and logs. Bounded search; absence of violations is not established.",
    "note": "trusts vfw/refevm.py, vfw/symeval.py and vfw/asm.py (validated against each other and by seeded-mutation experiments); z3 'unsat/unknown' is never evidence",
}

MAIN, C1, C2 = 0x1000, 0x2000, 0x2001
ADDRS = [MAIN, C1, C2]

# init codes for CREATE/CREATE2: (constructor prefix, runtime)
_RT1 = asm.assemble([("PUSH", 42), ("PUSH", 0), "MSTORE", ("PUSH", 32), ("PUSH", 0), "RETURN"])
_RT2 = asm.assemble(["CALLER", ("PUSH", 1), "SSTORE", "CALLVALUE", ("PUSH", 0), "MSTORE", ("PUSH", 32), ("PUSH", 0), "RETURN"])
INITS = [
    asm.creation_code(_RT1).hex(),
    asm.creation_code(_RT2, asm.assemble([("PUSH", 7), ("PUSH", 3), "SSTORE", "CALLVALUE", ("PUSH", 4), "SSTORE"])).hex(),
    asm.assemble([("PUSH", 0xAB), ("PUSH", 0), "MSTORE8", ("PUSH", 1), ("PUSH", 0), "REVERT"]).hex(),
    asm.assemble(["INVALID"]).hex(),
    asm.assemble([("PUSH", 0), ("PUSH", 0), "RETURN"]).hex(),  # empty runtime
]

RAW_ALPHA = (
    [0x00, 0x01, 0x02, 0x03, 0x04, 0x06, 0x10, 0x11, 0x14, 0x15, 0x16, 0x17, 0x19, 0x1B, 0x1C, 0x20, 0x30, 0x33, 0x34, 0x35, 0x36, 0x37, 0x39,
     0x3D, 0x3E, 0x47, 0x50, 0x51, 0x52, 0x53, 0x54, 0x55, 0x56, 0x57, 0x58, 0x5B, 0x5B, 0x5E, 0x5F, 0x5F, 0x60, 0x60, 0x60, 0x61, 0x7F, 0x80, 0x81, 0x82,
     0x90, 0x91, 0xA0, 0xA1, 0xF3, 0xFD, 0xFE]
)


def case_st(kind):
    if kind == "raw":
        return st.builds(
            lambda bs, seed: {"kind": "raw", "raw": bytes(bs).hex(), "seed": seed},
            st.lists(st.one_of(st.sampled_from(RAW_ALPHA), st.sampled_from([0, 1, 2, 4, 32, 64]), st.integers(0, 255)), min_size=1, max_size=48),
            st.integers(0, 1 << 30),
        )
    body_main = gen.body_st(ADDRS, [C1, C2], INITS, maxlen=6)
    body_c1 = gen.body_st(ADDRS, [C2], INITS[:2], maxlen=4)
    body_c2 = gen.body_st(ADDRS, [], [], maxlen=3)
    base = st.builds(lambda a, b, c, seed: {"kind": "dsl", "bodies": [a, b, c], "seed": seed}, body_main, body_c1, body_c2, st.integers(0, 1 << 30))
    if kind == "mut":
        return st.builds(lambda c, m: dict(c, kind="mut", muts=[list(x) for x in m]), base, gen.mut_st())
    return base


def build_world(case):
    if case["kind"] == "raw":
        codes = [bytes.fromhex(case["raw"]), b"\x00", b"\x00"]
    else:
        codes = [gen.compile_body(b) for b in case["bodies"]]
        if case.get("muts"):
            codes[0] = gen.mutate(codes[0], case["muts"])
    return {
        "accounts": [
            {"addr": MAIN, "code": codes[0].hex(), "balance": "sym"},
            {"addr": C1, "code": codes[1].hex(), "balance": "sym"},
            {"addr": C2, "code": codes[2].hex(), "balance": 5},
        ],
        "target": MAIN,
        "cdlen": 32 * gen.NW,
        "cdwords": case.get("seed", 0) % 3 != 0,  # 2/3 per-word symbols, 1/3 one flat symbol
        "caller": "sym",
        "origin": "sym",
        "value": "sym",
    }


def features(case):
    f = set()
    if case["kind"] != "dsl":
        f.add(case["kind"])
    txt = repr(case.get("bodies"))
    for k, n in (("'call'", "call"), ("'create'", "create"), ("'sha'", "hash"), ("'mapkey'", "hash"), ("'loop'", "loop"), ("'if'", "if"), ("'sstore'", "storage"), ("'log'", "log")):
        if k in txt:
            f.add(n)
    return f


_ARGS = None


def args():
    global _ARGS
    if _ARGS is None:
        _ARGS = sym.base_config(depth=12000)
    return _ARGS


def run_case(case, acc: Acc | None = None):
    world = build_world(case)
    rng = random.Random(case.get("seed", 0))
    inputs = case.get("inputs") or diff.boundary_inputs(world, rng, 4)
    try:
        r = diff.check_world(world, inputs, args(), guided=not case.get("inputs"))
    except RecursionError:
        # unbounded call recursion (e.g. a mutant calling itself): outside the <=4-deep call-tree domain
        if acc is not None:
            acc.exclude("recursion")
        return []
    fails = []
    for b, d in r["fails"]:
        fails.append((b, d))
    if acc is not None and r.get("crash"):
        acc.exclude("crash:" + r["crash"])
    if acc is not None:
        stt = r["stats"]
        nstmts = sum(len(b) for b in case.get("bodies", [[0, 0, 0]]))
        branching = any(any(ex.path.conditions.values()) for ex in r["exs"])
        nt = stt["covered"] > 0 and nstmts >= 3 and (branching or bool(features(case) & {"storage", "call", "create", "hash"}))
        np_ = stt["paths"]
        klass = sorted(features(case)) + [f"paths:{'1' if np_ <= 1 else '2-4' if np_ <= 4 else '5-16' if np_ <= 16 else '17+'}"]
        acc.case(case, nt, klass=klass or ["plain"], sample={"bodies": case.get("bodies"), "raw": case.get("raw"), "stats": stt})
        for k in ("inputs", "covered", "uncovered", "guided", "uneval", "stuck_paths", "ref_unsupported", "multi_cover"):
            acc.extra["n_" + k] = acc.extra.get("n_" + k, 0) + stt.get(k, 0)
    return fails


def shards(tier):
    n = 130 if tier == "quick" else 2000
    out = []
    for k in range(10):
        out.append({"kind": "dsl", "n": n})
    for k in range(3):
        out.append({"kind": "mut", "n": n})
    for k in range(3):
        out.append({"kind": "raw", "n": n * 3})
    out.append({"kind": "pc0"})
    return out


def run_shard(spec, seed, tier):
    acc = Acc()
    if spec["kind"] == "pc0":
        # hand-written loops whose head is the JUMPDEST at pc 0 (a destination the DSL never produces)
        from props import c19_decode as c19

        for kind in ("jumpi", "jump"):
            for symbolic in (False, True):
                for limit in (1, 2, 3):
                    case = {"kind": "raw", "raw": c19.pc0_program(limit, kind, symbolic).hex(), "seed": seed % 1000 + limit}
                    for b, d in run_case(case, acc):
                        acc.fail(["pc0-loop"] + list(b), case, d)
        return acc

    def body(case):
        for b, d in run_case(case, acc):
            acc.fail(b, case, d)

    run_cases(case_st(spec["kind"]), body, spec["n"], seed)
    return acc


def replay(case):
    return [{"bucket": b, "detail": d} for b, d in run_case(case)]


def shrink(case, same):
    if case["kind"] == "raw":
        bs = list(bytes.fromhex(case["raw"]))
        out = ddmin(bs, lambda x: same(dict(case, raw=bytes(x).hex())))
        return dict(case, raw=bytes(out).hex())
    bodies = [list(b) for b in case["bodies"]]
    for i in range(3):
        def f(x, i=i):
            bb = list(bodies)
            bb[i] = x
            return same(dict(case, bodies=bb))
        bodies[i] = ddmin(bodies[i], f) if len(bodies[i]) > 1 else bodies[i]
    return dict(case, bodies=bodies)
