"""C13 — assume and assert cheatcodes have exactly their stated meaning.

(a) The complete Forge-std signature list is written here independently (assertTrue/False,
    Eq/NotEq over {bool,uint256,int256,address,bytes32,string,bytes} and their arrays, Lt/Gt/Le/Ge
    over {uint256,int256}, each with and without message); selectors are recomputed with keccak.
(b) For every signature a program ABI-encodes the arguments in memory (own encoder; word
    arguments and array elements may be symbolic calldata words, lengths are concrete), calls the
    cheatcode address at nesting depth 1..3 below the entry frame, and then performs an
    observable effect.  For every valuation: relation false <=> some reported path that ends in
    FailCheatcode admits the valuation; relation true => none does.
(c) vm.assume(c): every reported path admits only valuations with c != 0, and every such
    valuation is admitted by some path.
(d) (string[] / bytes[]) variants must end in an error, never pass silently.
"""

from __future__ import annotations

import random

from eth_hash.auto import keccak

from vfw import diff, gen, sym, symeval
from vfw.evmref import BOUNDARY, M256, s256
from vfw.hyp import run_cases, st
from vfw.runner import Acc

PROPERTY = "C13"
LEVEL = "exploration"
RULE = (
    "case = (assert signature out of the full Forge-std list or vm.assume, operand recipe (symbolic words / concrete / "
    "arrays len 0-3 / bytes & strings), nesting depth 1-3, 10 valuations incl. boundary pairs around the relation). "
    "Non-trivial = the valuations contain both a satisfying and a violating assignment, or nesting depth >= 2; distinct "
    "by (signature, recipe, valuations)."
)
ASSUMPTIONS = [
    "bool and address operands are valid ABI encodings (0/1, < 2^160); lengths/offsets of dynamic operands are concrete",
    "halmos semantics of a failing vm.assert*: the whole path ends in a failure (Foundry: the cheatcode call reverts) - both make the test fail",
    "the path that continues after an assert is not required to exclude the failing inputs (the failing path exists for them)",
]
WATCHDOG_S = {"quick": 2400, "thorough": 10800}

MANIFEST = {
    "technique": "table-driven generated programs: every Forge-std assert signature (selector recomputed by keccak) called through real bytecode with own ABI encoding at nesting depth 1-3, relation decided by an independent Python model per valuation; coverage oracle for vm.assume",
    "text": "For each of the 84 assert selectors and vm.assume, Hypothesis generates operand recipes (symbolic words with boundary/near-miss valuations, arrays of length 0-3 with equal/unequal lengths and element-wise near misses, bytes/strings with common prefixes and different lengths), places the call 1-3 frames deep and checks for every valuation that a FailCheatcode path admits it exactly when the stated relation (signedness, element-wise, length-sensitive) is false; for vm.assume that the surviving paths admit exactly the valuations with a non-zero condition.",
    "note": "signature list and relation semantics written independently from the ABI/Forge-std documentation; trusts symeval for path admission",
}

HEVM = 0x7109709ECFA91A80626FF3989D68F67F5B1DD12D
A, B, C = 0x1000, 0x2000, 0x2001
WORD_T = ["bool", "uint256", "int256", "address", "bytes32"]
DYN_T = ["string", "bytes"]


def selector(sig: str) -> int:
    return int.from_bytes(keccak(sig.encode())[:4], "big")


def all_signatures():
    sigs = []
    for op in ("True", "False"):
        sigs += [f"assert{op}(bool)", f"assert{op}(bool,string)"]
    for op in ("Eq", "NotEq"):
        for t in WORD_T + DYN_T:
            sigs += [f"assert{op}({t},{t})", f"assert{op}({t},{t},string)"]
        for t in WORD_T + DYN_T:
            sigs += [f"assert{op}({t}[],{t}[])", f"assert{op}({t}[],{t}[],string)"]
    for op in ("Lt", "Gt", "Le", "Ge"):
        for t in ("uint256", "int256"):
            sigs += [f"assert{op}({t},{t})", f"assert{op}({t},{t},string)"]
    return sigs


SIGS = all_signatures()


def parse(sig):
    name, rest = sig.split("(")
    params = rest[:-1].split(",")
    op = name[len("assert"):]
    unary = op in ("True", "False")
    nargs = 1 if unary else 2
    return op, params[0], len(params) > nargs


# ---------------------------------------------------------------- operand recipes
# value spec: ["w", word_expr]  word_expr = ["c", v] | ["cd", i]
#             ["arr", [word_expr...]]      T[]
#             ["bytes", hex]               bytes / string (concrete)

def w_value(e, words):
    return e[1] & M256 if e[0] == "c" else words[e[1]]


def spec_value(spec, words):
    if spec[0] == "w":
        return w_value(spec[1], words)
    if spec[0] == "arr":
        return [w_value(e, words) for e in spec[1]]
    return bytes.fromhex(spec[1])


def relation(op, typ, a, b=None):
    if op == "True":
        return a != 0
    if op == "False":
        return a == 0
    if op == "Eq":
        return a == b
    if op == "NotEq":
        return a != b
    if typ == "int256":
        a, b = s256(a), s256(b)
    return {"Lt": a < b, "Gt": a > b, "Le": a <= b, "Ge": a >= b}[op]


def encode_call(sig, specs, msg):
    """own ABI encoder -> (bytes with zero placeholders for symbolic words, [(offset, word_expr)])"""
    sel = selector(sig).to_bytes(4, "big")
    items = list(specs) + ([["bytes", msg.encode().hex()]] if msg is not None else [])
    head = b""
    tails = b""
    patches = []
    nhead = 32 * len(items)
    for it in items:
        if it[0] == "w":
            e = it[1]
            if e[0] == "c":
                head += (e[1] & M256).to_bytes(32, "big")
            else:
                patches.append((4 + len(head), e))
                head += bytes(32)
        elif it[0] == "arr":
            head += (nhead + len(tails)).to_bytes(32, "big")
            t = len(it[1]).to_bytes(32, "big")
            for e in it[1]:
                if e[0] == "c":
                    t += (e[1] & M256).to_bytes(32, "big")
                else:
                    patches.append((4 + nhead + len(tails) + len(t), e))
                    t += bytes(32)
            tails += t
        else:
            raw = bytes.fromhex(it[1])
            head += (nhead + len(tails)).to_bytes(32, "big")
            tails += len(raw).to_bytes(32, "big") + raw + bytes((-len(raw)) % 32)
    return sel + head + tails, patches


def rel_expr(case):
    """the assertion's relation as an EVM word (1/0) over the two word operands"""
    op, typ, _ = parse(case["sig"])
    a = case["specs"][0][1]
    b = case["specs"][1][1] if len(case["specs"]) > 1 else None
    if op == "True":
        return ["op1", "ISZERO", ["op1", "ISZERO", a]]
    if op == "False":
        return ["op1", "ISZERO", a]
    if op == "Eq":
        return ["op2", "EQ", a, b]
    if op == "NotEq":
        return ["op1", "ISZERO", ["op2", "EQ", a, b]]
    lt, gt = ("SLT", "SGT") if typ == "int256" else ("LT", "GT")
    return {"Lt": ["op2", lt, a, b], "Gt": ["op2", gt, a, b], "Le": ["op1", "ISZERO", ["op2", gt, a, b]], "Ge": ["op1", "ISZERO", ["op2", lt, a, b]]}[op]


def build_world(case):
    sig = case["sig"]
    data, patches = encode_call(sig, case["specs"], case.get("msg"))
    CD = 0x500
    leaf = [["memw", CD, data.hex()]]
    for off, e in patches:
        leaf.append(["mstore", CD + off, e])
    if case.get("guard"):
        # on one side of a fork the relation is assumed first; the very same assertion then follows on
        # both sides (what is learnt about the assertion on one side must not be used on the other)
        ga = selector("assume(bool)").to_bytes(4, "big")
        leaf = [["if", ["op2", "AND", ["cd", gen.NW - 1], ["c", 1]],
                 [["memw", 0x700, ga.hex()], ["mstore", 0x704, rel_expr(case)], ["xcall", HEVM, 0x700, 36, 0, 0]], []]] + leaf
    leaf.append(["xcall", HEVM, CD, len(data), 0, 0])
    leaf += [["sstore", ["c", 9], ["c", 1]], ["mstore", 0, ["c", 0x77]], ["return", 0, 32]]
    depth = case.get("depth", 1)
    fwd = lambda tgt: [["cdcopy", 0, 0, 32 * gen.NW], ["xcallf", tgt, 0, 32 * gen.NW, 0x200, 32, 0x100], ["sstore", ["c", 8], ["c", 1]], ["return", 0x100, 0x140]]  # noqa: E731
    bodies = {A: leaf, B: [["stop"]], C: [["stop"]]}
    if depth == 2:
        bodies = {A: fwd(B), B: leaf, C: [["stop"]]}
    elif depth == 3:
        bodies = {A: fwd(B), B: fwd(C), C: leaf}
    return {
        "accounts": [{"addr": a, "code": gen.compile_body(bodies[a]).hex(), "balance": 0} for a in (A, B, C)],
        "target": A, "cdlen": 32 * gen.NW, "cdwords": case.get("seed", 0) % 2 == 0, "caller": 1, "origin": 1, "value": 0,
    }


_ARGS = None


def run_case(case, acc=None):
    global _ARGS
    if _ARGS is None:
        _ARGS = sym.base_config(depth=30000)
    world = build_world(case)
    sig = case["sig"]
    fails = []
    try:
        sevm, exs = sym.run_world(world, _ARGS)
    except NotImplementedError as e:
        if "[]" in sig and ("string[]" in sig or "bytes[]" in sig):
            if acc is not None:
                acc.case(case, True, klass="unsupported-array-of-dynamic:error")
            return []
        return [(["raise", sig, "NotImplementedError"], repr(e))]
    except Exception as e:
        return [(["raise", sig, type(e).__name__], repr(e)[:300])]
    if "string[]" in sig or "bytes[]" in sig:
        # must not pass silently
        if any(sym.outcome(ex) == "success" for ex in exs):
            fails.append((["dynamic-array-passes-silently", sig], f"{[sym.outcome(e) for e in exs]}"))
        if acc is not None:
            acc.case(case, True, klass="unsupported-array-of-dynamic")
        return fails
    op, typ, _ = parse(sig) if sig != "assume(bool)" else ("assume", "bool", False)
    both = set()
    for words in case["vals"]:
        inp = {"cd": b"".join(w.to_bytes(32, "big") for w in words).hex(), "caller": 1, "origin": 1, "value": 0, "bal": {}}
        vals = [spec_value(s, words) for s in case["specs"]]
        holds = relation(op, typ, *vals) if op != "assume" else (vals[0] != 0)
        both.add(holds)
        assumed_away = bool(case.get("guard")) and (words[gen.NW - 1] & 1) == 1 and not holds
        failing, passing, stuck = 0, 0, 0
        for ex in exs:
            ok, _ = diff.path_covers(ex, diff.mk_env(world, inp))
            if not ok:
                continue
            o = sym.outcome(ex)
            if o == "failcheat":
                failing += 1
            elif o.startswith("stuck"):
                stuck += 1
            else:
                passing += 1
        tag = [op, typ + ("[]" if "[]" in sig else "")]
        if op == "assume":
            if holds and passing == 0 and not stuck:
                fails.append((["assume", "drops-admissible"], f"c != 0 but no path admits words={words[:2]}"))
            if not holds and (passing or failing):
                fails.append((["assume", "admits-excluded"], f"c == 0 but a path admits words={words[:2]}"))
        else:
            if assumed_away:
                if passing or failing:
                    fails.append((["guarded", "admits-assumed-away"] + tag, f"{sig}: the relation was assumed on this side and is false for {vals}, but a path admits the input"))
                continue
            if holds and failing:
                fails.append((["fails-when-true"] + tag, f"{sig}: relation holds for {vals} but a FailCheatcode path admits it"))
            if not holds and not failing and not stuck:
                fails.append((["passes-when-false"] + tag, f"{sig}: relation false for {vals} but no FailCheatcode path admits it ({[sym.outcome(e) for e in exs]})"))
            if not holds and failing:
                # the failing path must not have run the code after the call
                pass
        if fails:
            break
    if acc is not None:
        acc.case(case, len(both) == 2 or case.get("depth", 1) >= 2, klass=[op, "depth:%d" % case.get("depth", 1)] + (["array"] if "[]" in sig else []) + (["dynamic"] if typ in DYN_T else []),
                 sample={"sig": sig, "specs": case["specs"], "depth": case.get("depth", 1), "vals": case["vals"][:2]})
    return fails


# ---------------------------------------------------------------- strategies

def near(v, d):
    return (v + d) & M256


def word_vals(typ):
    if typ == "bool":
        return st.integers(0, 1)
    if typ == "address":
        return st.one_of(st.integers(0, 3), st.integers(0, (1 << 160) - 1), st.just((1 << 160) - 1))
    return st.one_of(st.sampled_from(BOUNDARY), st.integers(0, 4), st.integers(0, M256))


def case_st(sig):
    if sig == "assume(bool)":
        def mk(e, vals, seed, depth):
            return {"sig": "assume(bool)", "specs": [["w", e]], "msg": None, "vals": vals, "seed": seed, "depth": depth}
        cond = st.one_of(st.just(["cd", 0]), st.integers(0, 1).map(lambda v: ["c", v]))
        return st.builds(mk, cond, st.lists(st.lists(st.one_of(st.integers(0, 2), st.sampled_from(BOUNDARY)), min_size=gen.NW, max_size=gen.NW), min_size=6, max_size=6), st.integers(0, 1 << 20), st.just(1))
    op, typ, has_msg = parse(sig)
    is_arr = "[]" in sig
    base = typ.replace("[]", "")
    msg = st.just("boom! " * 7) if has_msg else st.none()
    wexpr = lambda i: st.one_of(st.just(["cd", i]), st.just(["cd", i]), word_vals(base).map(lambda v: ["c", v]))  # noqa: E731
    if op in ("True", "False"):
        specs = st.builds(lambda e: [["w", e]], st.one_of(st.just(["cd", 0]), st.integers(0, 1).map(lambda v: ["c", v])))
    elif base in DYN_T and not is_arr:
        def mkb(x, mode, extra):
            y = {0: x, 1: x + extra, 2: x[:-1] if x else b"\x01", 3: (x[:-1] + bytes([x[-1] ^ 1])) if x else b"", 4: b"\x00" + x, 5: x + b"\x00"}[mode]
            return [["bytes", x.hex()], ["bytes", y.hex()]]
        specs = st.builds(mkb, st.binary(max_size=40), st.integers(0, 5), st.binary(min_size=1, max_size=3))
    elif is_arr and base in DYN_T:
        specs = st.just([["arr", []], ["arr", []]])
    elif is_arr:
        def mka(n, m, same, patch, v):
            a = [["cd", i % gen.NW] if i % 2 == 0 else ["c", i + 1] for i in range(n)]
            b = list(a[:m]) + [["c", 7]] * max(0, m - n)
            if not same and b:
                b[patch % len(b)] = v
            return [["arr", a], ["arr", b]]
        specs = st.builds(mka, st.integers(0, 3), st.integers(0, 3), st.booleans(), st.integers(0, 3), st.one_of(st.just(["cd", 1]), st.integers(0, 5).map(lambda v: ["c", v])))
    else:
        specs = st.builds(lambda a, b: [["w", a], ["w", b]], wexpr(0), wexpr(1))
        if op in ("Lt", "Gt", "Le", "Ge"):
            # both operands concrete, at the sign / wrap-around boundaries
            edge = st.sampled_from([1 << 255, (1 << 255) - 1, (1 << 255) + 1, 0, 1, M256, M256 - 1])
            specs = st.one_of(specs, specs, st.builds(lambda a, b: [["w", ["c", a]], ["w", ["c", b]]], edge, edge))

    def vals_st():
        # boundary pairs around the relation: (x, x), (x, x+1), (x, x-1), sign boundaries
        x = word_vals(base)
        pair = st.one_of(
            st.builds(lambda v: [v, v], x), st.builds(lambda v: [v, near(v, 1)], x), st.builds(lambda v: [v, near(v, -1)], x),
            st.builds(lambda a, b: [a, b], x, x), st.sampled_from([[(1 << 255) - 1, 1 << 255], [1 << 255, (1 << 255) - 1], [M256, 0], [0, M256], [0, 1], [1, 0]]),
        )
        if base == "bool":
            pair = st.builds(lambda a, b: [a, b], st.integers(0, 1), st.integers(0, 1))
        if base == "address":
            pair = pair.map(lambda p: [p[0] & ((1 << 160) - 1), p[1] & ((1 << 160) - 1)])
        return st.lists(st.builds(lambda p, r: p + r, pair, st.lists(x, min_size=gen.NW - 2, max_size=gen.NW - 2)), min_size=10, max_size=10)

    word_ops = not is_arr and base not in DYN_T
    guard = st.sampled_from([False, False, True]) if word_ops else st.just(False)
    return st.builds(lambda sp, m, vals, seed, depth, g: {"sig": sig, "specs": sp, "msg": m, "vals": vals, "seed": seed, "depth": depth, "guard": g and depth == 1},
                     specs, msg, vals_st(), st.integers(0, 1 << 20), st.integers(1, 3), guard)


def check_table(acc: Acc):
    """every Forge-std signature is bound (by selector) in halmos' table and nothing else is"""
    from halmos.assertions import assert_cheatcode_handler

    want = {selector(s): s for s in SIGS}
    for sel, s in want.items():
        acc.case("sel/" + s, True, klass="selector")
        if sel not in assert_cheatcode_handler:
            acc.fail(["selector-missing", s], {"sig": s, "table": True}, f"selector {sel:#010x} of {s} is not handled")
    for sel in assert_cheatcode_handler:
        if sel not in want:
            acc.fail(["selector-unknown"], {"sel": sel, "table": True}, f"table binds {sel:#010x} which is not a Forge-std assert selector")


def shards(tier):
    n = 80 if tier == "quick" else 800
    sigs = SIGS + ["assume(bool)"] * 3
    out = [{"sigs": sigs[k::15], "n": n} for k in range(15)]
    out.append({"table": True})
    return out


def run_shard(spec, seed, tier):
    acc = Acc()
    if spec.get("table"):
        check_table(acc)
        return acc
    for i, sig in enumerate(spec["sigs"]):

        def body(case):
            for b, d in run_case(case, acc):
                acc.fail(b, case, d)

        run_cases(case_st(sig), body, spec["n"], seed + i)
    return acc


def replay(case):
    if case.get("table"):
        acc = Acc()
        check_table(acc)
        return [f for lst in acc.failures.values() for f in lst]
    return [{"bucket": b, "detail": d} for b, d in run_case(case)]
