"""C03 — PASS means no admissible input violates the test (end to end).

Test contracts are assembled from a grammar: dispatcher + setUp() (stores a constant, deploys a
helper) + 1-4 check_* functions with static (uintN, bool, address, bytesN) and dynamic (bytes,
uint256[]) parameters.  Each body evaluates a conjunction of guard atoms over the decoded
arguments, storage written by setUp and the lengths of dynamic arguments, and on guard-true
fails in a generated way: Panic(k) with k inside/outside --panic-error-codes, the legacy fail flag
(vm.store(HEVM,"failed",1)), a vm.assert*, or a failure raised inside a nested call.  Guards have
*planted ground truth*: a witness is drawn first and every atom is made true at the witness
(reachable), or a contradiction / out-of-bounds length is added (unreachable); ground truth is
re-checked by an independent z3 encoding and by running the reference EVM on the witness.
Oracle: reachable => the verdict must not be PASS; PASS => the reference EVM does not fail on the
witness, boundary and sampled inputs.
"""

from __future__ import annotations

import random

import z3

from vfw import asm, cheats, e2e, gen, refevm
from vfw.evmref import BOUNDARY, M256
from vfw.hyp import run_cases, st
from vfw.runner import Acc

PROPERTY = "C03"
LEVEL = "exploration"
RULE = (
    "case = test contract (setUp + 1-4 check functions, each = parameter list + guard atoms with a planted witness or a "
    "planted contradiction + failure kind) x configuration (solver yices/z3, storage layout, panic codes). Non-trivial = "
    "a reachable test whose witness needs >=2 atoms or a dynamic parameter or storage from setUp, or an unreachable test "
    "with >=1 satisfiable atom; distinct by contract + config."
)
ASSUMPTIONS = [
    "argument values range over the bounds halmos prints (lengths of dynamic parameters from the candidate lists)",
    "a non-PASS verdict (FAIL/TIMEOUT/ERROR) for an unreachable failure is not a C03 violation",
    "solvers (yices, z3) are trusted for unsat answers; every sat answer is replayed on the reference EVM (C04)",
]
WATCHDOG_S = {"quick": 2400, "thorough": 10800}

MANIFEST = {
    "technique": "end-to-end generated test contracts with planted ground truth (witness-first guard construction, independent z3 re-check, concrete replay on the reference EVM) driven through run_contract; verdict compared with ground truth",
    "text": "Hand-assembled Foundry-style artifacts generated from a grammar of guarded assertion failures (Panic codes in/out of the configured set, legacy fail flag, vm.assert, failures inside nested calls; static and dynamic parameters; storage initialised by setUp) are verified by halmos' own run_contract with yices and z3 and both storage layouts; because every guard is built around a drawn witness (or a planted contradiction), the expected verdict is known: a reachable failure reported as PASS is a violation, and every PASS is cross-checked by executing the test concretely on the reference EVM for the witness and sampled inputs.",
    "note": "trusts the artifact builder, the reference EVM and the planted ground truth (itself double-checked by z3 and by concrete execution); forge is not involved",
}

HELPER = 0xAAAA0002  # first CREATE by setUp (halmos names it 0xaaaa0000 + offset)
WORD_TYPES = ["uint256", "uint8", "bool", "address", "bytes32", "int256", "uint128"]


# ---------------------------------------------------------------- atoms

def atom_expr(a, layout):
    """layout: {"words": {i: calldata offset}, "dyn": {p: head offset}}"""
    def w(i):
        return ["cdo", layout["words"][i]]

    def length(p):
        return ["cdx", ["op2", "ADD", ["c", 4], ["cdo", layout["dyn"][p]]]]

    k = a[0]
    if k == "eq":
        return ["op2", "EQ", w(a[1]), ["c", a[2]]]
    if k == "gt":
        return ["op2", "GT", w(a[1]), ["c", a[2]]]
    if k == "lt":
        return ["op2", "LT", w(a[1]), ["c", a[2]]]
    if k == "sum":
        return ["op2", "EQ", ["op2", "ADD", w(a[1]), w(a[2])], ["c", a[3]]]
    if k == "and":
        return ["op2", "EQ", ["op2", "AND", w(a[1]), ["c", a[2]]], ["c", a[3]]]
    if k == "mul":
        return ["op2", "EQ", ["op2", "MUL", w(a[1]), ["c", a[2]]], ["c", a[3]]]
    if k == "div":
        return ["op2", "EQ", ["op2", "DIV", w(a[1]), w(a[2])], ["c", a[3]]]
    if k == "mod":
        return ["op2", "EQ", ["op2", "MOD", w(a[1]), ["c", a[2]]], ["c", a[3]]]
    if k == "modw":
        return ["op2", "EQ", ["op2", "MOD", w(a[1]), w(a[2])], ["c", a[3]]]
    if k in ("sdivw", "smodw", "expw"):
        return ["op2", "EQ", ["op2", {"sdivw": "SDIV", "smodw": "SMOD", "expw": "EXP"}[k], w(a[1]), w(a[2])], ["c", a[3]]]
    if k in ("addmodw", "mulmodw"):
        return ["op2", "EQ", ["op3", "ADDMOD" if k == "addmodw" else "MULMOD", w(a[1]), w(a[2]), w(a[3])], ["c", a[4]]]
    if k == "mix":
        return ["op2", "EQ", ["op2", "XOR", ["op2", "MUL", w(a[1]), ["c", a[2]]], ["op2", "SHR", ["c", 7], w(a[1])]], ["c", a[3]]]
    if k == "st":
        return ["op2", "EQ", ["sload", ["c", 0]], ["c", a[1]]]
    if k == "len":
        return ["op2", "EQ", length(a[1]), ["c", a[2]]]
    if k == "word0":
        return ["op2", "EQ", ["cdx", ["op2", "ADD", ["c", 36], ["cdo", layout["dyn"][a[1]]]]], ["c", a[2]]]
    raise ValueError(a)


def atom_holds(a, words, lens, data0, store):
    k = a[0]
    if k == "eq":
        return words[a[1]] == a[2]
    if k == "gt":
        return words[a[1]] > a[2]
    if k == "lt":
        return words[a[1]] < a[2]
    if k == "sum":
        return (words[a[1]] + words[a[2]]) & M256 == a[3]
    if k == "and":
        return words[a[1]] & a[2] == a[3]
    if k == "mul":
        return (words[a[1]] * a[2]) & M256 == a[3]
    if k == "div":
        return (0 if words[a[2]] == 0 else words[a[1]] // words[a[2]]) == a[3]
    if k == "mod":
        return words[a[1]] % a[2] == a[3]
    if k == "modw":
        return (0 if words[a[2]] == 0 else words[a[1]] % words[a[2]]) == a[3]
    if k in ("sdivw", "smodw", "expw"):
        from vfw.evmref import alu
        return alu({"sdivw": "SDIV", "smodw": "SMOD", "expw": "EXP"}[k], words[a[1]], words[a[2]]) == a[3]
    if k in ("addmodw", "mulmodw"):
        x, y, m = words[a[1]], words[a[2]], words[a[3]]
        return (0 if m == 0 else ((x + y) % m if k == "addmodw" else (x * y) % m)) == a[4]
    if k == "mix":
        return (((words[a[1]] * a[2]) & M256) ^ (words[a[1]] >> 7)) == a[3]
    if k == "st":
        return store == a[1]
    if k == "len":
        return lens[a[1]] == a[2]
    if k == "word0":
        return data0[a[1]] == a[2]
    raise ValueError(a)


def atom_z3(a, W, L, D, store):
    k = a[0]
    B = lambda v: z3.BitVecVal(v, 256)  # noqa: E731
    if k == "eq":
        return W[a[1]] == B(a[2])
    if k == "gt":
        return z3.UGT(W[a[1]], B(a[2]))
    if k == "lt":
        return z3.ULT(W[a[1]], B(a[2]))
    if k == "sum":
        return W[a[1]] + W[a[2]] == B(a[3])
    if k == "and":
        return W[a[1]] & B(a[2]) == B(a[3])
    if k == "mul":
        return W[a[1]] * B(a[2]) == B(a[3])
    if k == "div":
        return z3.If(W[a[2]] == 0, B(0), z3.UDiv(W[a[1]], W[a[2]])) == B(a[3])
    if k == "mod":
        return z3.URem(W[a[1]], B(a[2])) == B(a[3])
    if k == "modw":
        return z3.If(W[a[2]] == 0, B(0), z3.URem(W[a[1]], W[a[2]])) == B(a[3])
    if k == "sdivw":
        return z3.If(W[a[2]] == 0, B(0), W[a[1]] / W[a[2]]) == B(a[3])
    if k == "smodw":
        return z3.If(W[a[2]] == 0, B(0), z3.SRem(W[a[1]], W[a[2]])) == B(a[3])
    if k == "expw":
        return None  # no exact z3 encoding: ground truth comes from the planted witness only
    if k in ("addmodw", "mulmodw"):
        n = 257 if k == "addmodw" else 512
        x, y, m = (z3.ZeroExt(n - 256, W[a[j]]) for j in (1, 2, 3))
        r = z3.URem(x + y if k == "addmodw" else x * y, m)
        return z3.If(W[a[3]] == 0, B(0), z3.Extract(255, 0, r)) == B(a[4])
    if k == "mix":
        return ((W[a[1]] * B(a[2])) ^ z3.LShR(W[a[1]], 7)) == B(a[3])
    if k == "st":
        return z3.BoolVal(store == a[1])
    if k == "len":
        return L[a[1]] == B(a[2])
    if k == "word0":
        return D[a[1]] == B(a[2])


# ---------------------------------------------------------------- ABI layout / encoding of a test function

def layout_of(params):
    """params: list of type strings (static word types, 'bytes', 'uint256[]')"""
    words, dyn = {}, {}
    wi = di = 0
    for pos, t in enumerate(params):
        off = 4 + 32 * pos
        if t in ("bytes", "uint256[]"):
            dyn[di] = off
            di += 1
        else:
            words[wi] = off
            wi += 1
    return {"words": words, "dyn": dyn}


def encode_args(params, words, lens, data0, rng):
    head, tail = b"", b""
    wi = di = 0
    n = len(params)
    for t in params:
        if t in ("bytes", "uint256[]"):
            head += (32 * n + len(tail)).to_bytes(32, "big")
            L = lens[di]
            if t == "bytes":
                body = (data0[di].to_bytes(32, "big") + bytes(rng.getrandbits(8) for _ in range(max(0, L - 32))))[:L] if L else b""
                tail += L.to_bytes(32, "big") + body + bytes((-L) % 32)
            else:
                elems = [data0[di]] + [rng.getrandbits(256) for _ in range(max(0, L - 1))]
                tail += L.to_bytes(32, "big") + b"".join(e.to_bytes(32, "big") for e in elems[:L])
            di += 1
        else:
            head += words[wi].to_bytes(32, "big")
            wi += 1
    return head + tail


ALLOW_EXP = False  # C04 turns the EXP atoms on (models that stay abstract)
CANDS = {"bytes": [0, 65, 1024], "uint256[]": [0, 1, 2]}


# ---------------------------------------------------------------- strategies

def test_st():
    def mk(nwords, dyns, seed, reach, kind, natoms, contra, pcode, allow_exp=ALLOW_EXP):
        rng = random.Random(seed)
        params = [rng.choice(WORD_TYPES) for _ in range(nwords)]
        for d in dyns:
            params.insert(rng.randrange(len(params) + 1), d)
        dynp = [t for t in params if t in CANDS]
        words = [rng.choice([rng.choice(BOUNDARY), rng.randrange(0, 300), rng.getrandbits(256), rng.getrandbits(64)]) for _ in range(nwords)]
        lens = [rng.choice(CANDS[t]) for t in dynp]
        data0 = [rng.getrandbits(256) for _ in dynp]
        atoms = []
        if nwords >= 2 and rng.random() < 0.25:
            words[rng.randrange(nwords)] = 0  # zero divisors / zero moduli are witnesses too
        for _ in range(natoms):
            i, j = rng.randrange(nwords), rng.randrange(nwords)
            form = rng.choice(["eq", "eq", "gt", "lt", "sum", "and", "mul", "div", "div", "mod", "modw", "sdivw", "smodw", "expw", "mix", "st", "len", "word0", "addmodw", "mulmodw"])
            wv = words[i]
            if form == "eq":
                atoms.append(["eq", i, wv])
            elif form == "gt" and wv > 0:
                atoms.append(["gt", i, max(0, wv - rng.choice([1, 2, wv]))])
            elif form == "lt" and wv < M256:
                atoms.append(["lt", i, min(M256, wv + rng.choice([1, 2, 1 << 200]))])
            elif form == "sum":
                atoms.append(["sum", i, j, (wv + words[j]) & M256])
            elif form == "and":
                m = rng.choice([0xFF, 0xFFFF, (1 << 160) - 1, 1, rng.getrandbits(256)])
                atoms.append(["and", i, m, wv & m])
            elif form == "mul":
                kk = rng.choice([3, 5, 7, 1000003])
                atoms.append(["mul", i, kk, (wv * kk) & M256])
            elif form == "div" and i != j:
                atoms.append(["div", i, j, 0 if words[j] == 0 else wv // words[j]])
                if words[j] == 0:
                    atoms += [["eq", j, 0], ["eq", i, wv]]
            elif form == "modw" and i != j:
                atoms.append(["modw", i, j, 0 if words[j] == 0 else wv % words[j]])
                if words[j] == 0:
                    atoms += [["eq", j, 0], ["eq", i, wv]]
            elif form in ("sdivw", "smodw") and i != j:
                from vfw.evmref import alu
                atoms.append([form, i, j, alu("SDIV" if form == "sdivw" else "SMOD", wv, words[j])])
                if words[j] == 0:
                    atoms += [["eq", j, 0]]
            elif form == "expw" and i != j and allow_exp:
                atoms.append(["expw", i, j, pow(wv, words[j], 1 << 256)])
            elif form in ("addmodw", "mulmodw"):
                k3 = rng.randrange(nwords)
                x, y, m = wv, words[j], words[k3]
                atoms.append([form, i, j, k3, 0 if m == 0 else ((x + y) % m if form == "addmodw" else (x * y) % m)])
                if m == 0:
                    atoms += [["eq", k3, 0]]
            elif form == "mix":
                kk = rng.getrandbits(256) | 1
                atoms.append(["mix", i, kk, ((wv * kk) & M256) ^ (wv >> 7)])
            elif form == "mod":
                kk = rng.choice([2, 3, 10, 97, 1 << 16])
                atoms.append(["mod", i, kk, wv % kk])
            elif form == "st":
                atoms.append(["st", "STORE"])
            elif form == "len" and dynp:
                p = rng.randrange(len(dynp))
                atoms.append(["len", p, lens[p]])
            elif form == "word0" and dynp:
                p = rng.randrange(len(dynp))
                if lens[p] >= (32 if dynp[p] == "bytes" else 1):
                    atoms.append(["len", p, lens[p]])
                    atoms.append(["word0", p, data0[p]])
        if not atoms:
            atoms.append(["eq", 0, words[0]])
        if not reach:
            i = rng.randrange(nwords)
            c = contra % 8
            j2 = (i + 1) % nwords
            if c == 4 and nwords >= 2:
                # true under SMT-LIB semantics (x % 0 = x), false on the EVM (x % 0 = 0)
                v = words[i] or 7
                atoms += [["eq", j2, 0], ["eq", i, v], [rng.choice(["modw", "smodw"]), i, j2, v]]
            elif c == 5 and nwords >= 2:
                v = words[i] or 7
                atoms += [["eq", j2, 0], ["eq", i, v], ["div", i, j2, M256]]
            elif c in (6, 7) and nwords >= 2:
                # modulus 0: the EVM result is 0, the SMT-LIB remainder is the (wide) dividend
                # (the planted value is reachable under the SMT-LIB reading: x + x = 2r, x * x = r^2)
                r_ = words[i] % 30 + 2
                atoms += [["eq", j2, 0], ["addmodw", i, i, j2, 2 * r_] if c == 6 else ["mulmodw", i, i, j2, r_ * r_]]
            elif c == 0:
                atoms += [["eq", i, words[i]], ["eq", i, (words[i] + 1) & M256]]
            elif c == 1:
                atoms += [["lt", i, 5], ["gt", i, 10]]
            elif c == 2 and dynp:
                p = rng.randrange(len(dynp))
                atoms += [["len", p, 7]]  # 7 is not among the candidates
            else:
                atoms += [["st", "STORE+1"]]
            rng.shuffle(atoms)
        return {"params": params, "atoms": atoms, "kind": kind, "pcode": pcode, "reachable": reach, "witness": {"words": words, "lens": lens, "data0": data0}, "seed": seed}

    return st.builds(
        mk, st.integers(1, 4), st.lists(st.sampled_from(["bytes", "uint256[]"]), max_size=2), st.integers(0, 1 << 30), st.sampled_from([True, True, False]),
        st.sampled_from(["panic", "panic", "failflag", "vmassert", "vmassert_cond", "vmassert_cond", "nested", "panic_other"]), st.integers(1, 4), st.integers(0, 7), st.sampled_from([0x11, 0x12, 0x32, 0x41]),
    )


def case_st():
    return st.builds(
        lambda tests, store, solver, layout, codes: {"tests": tests, "store": store, "solver": solver, "layout": layout, "codes": codes},
        st.lists(test_st(), min_size=1, max_size=4), st.integers(1, 1 << 64), st.sampled_from(["yices"] * 7 + ["z3"]), st.sampled_from(["solidity", "generic"]),
        st.sampled_from(["0x01", "0x01", "0x01,0x11", "*"]),
    )


# ---------------------------------------------------------------- build + run

def resolve_atoms(t, store):
    return [["st", store if a[1] == "STORE" else store + 1] if a[0] == "st" else a for a in t["atoms"]]


def build(case):
    helper_rt = e2e.dispatcher([{"sig": "boom()", "body": e2e.failflag_stmts()}])
    helper_init = asm.creation_code(helper_rt)
    setup = [["sstore", ["c", 0], ["c", case["store"]]], ["create", "CREATE", ["c", 0], helper_init.hex(), ["c", 0], 0x3E0], ["sstore", ["c", 1], ["mload", 0x3E0]]]
    fns = [{"sig": "setUp()", "body": setup}]
    for n, t in enumerate(case["tests"]):
        lay = layout_of(t["params"])
        kind = t["kind"]
        if kind == "nested":
            fail = [["memw", 0x500, e2e.selector("boom()")], ["call", "CALL", ["sload", ["c", 1]], ["c", 0], 0x500, 4, 0, 0, 0x520], ["stop"]]
        elif kind == "panic_other":
            fail = e2e.panic_stmts(t["pcode"])
        elif kind == "vmassert_cond":
            fail = []
        else:
            fail = e2e.fail_stmts(kind, 1)
        body = fail
        if kind == "vmassert_cond":
            # vm.assertTrue(!(atom1 && atom2 && ...)): the guard is the assertion's own condition
            g = None
            for a in resolve_atoms(t, case["store"]):
                e = atom_expr(a, lay)
                g = e if g is None else ["op2", "AND", g, e]
            data = bytes.fromhex("0c9fd581") + bytes(32)
            body = [["memw", 0x500, data.hex()], ["mstore", 0x504, ["op1", "ISZERO", g]], ["xcall", e2e.HEVM, 0x500, 36, 0, 0]]
        else:
            for a in reversed(resolve_atoms(t, case["store"])):
                body = [["if", atom_expr(a, lay), body, []]]
        inputs = [{"name": f"p{i}", "type": ty, "internalType": ty} for i, ty in enumerate(t["params"])]
        fns.append({"sig": f"check_t{n}({','.join(t['params'])})", "body": body + [["stop"]], "inputs": inputs})
    return e2e.artifact("T", fns)


def effective_failure(t, codes):
    """does the failure kind count as a failure under the configured panic codes"""
    if t["kind"] == "panic":
        return codes in ("*",) or 1 in parse_codes(codes)
    if t["kind"] == "panic_other":
        return codes == "*" or t["pcode"] in parse_codes(codes)
    return True


def parse_codes(s):
    return set() if s == "*" else {int(x, 0) for x in s.split(",")}


def ground_truth_z3(t, store):
    nw = sum(1 for p in t["params"] if p not in CANDS)
    dynp = [p for p in t["params"] if p in CANDS]
    W = [z3.BitVec(f"w{i}", 256) for i in range(nw)]
    L = [z3.BitVec(f"l{i}", 256) for i in range(len(dynp))]
    D = [z3.BitVec(f"d{i}", 256) for i in range(len(dynp))]
    s = z3.Solver()
    s.set("timeout", 3000)
    for i, p in enumerate(dynp):
        s.add(z3.Or([L[i] == c for c in CANDS[p]]))
    for a in resolve_atoms(t, store):
        f = atom_z3(a, W, L, D, store)
        if f is None:
            return z3.unknown
        s.add(f)
    return s.check()


def ref_fails(case, cj, n, t, words, lens, data0, rng):
    ch = cheats.Cheats()
    w, evm = e2e.ref_setup(cj, cheats=ch)
    ch.test_failed = False
    sig = f"check_t{n}({','.join(t['params'])})"
    data = bytes.fromhex(e2e.selector(sig)) + encode_args(t["params"], words, lens, data0, rng)
    res = e2e.call(evm, data)
    codes = parse_codes(case["codes"])
    return ch.test_failed or e2e.failed(res, tuple(codes))


_ARGS = {}


def run_case(case, acc=None):
    key = (case["solver"], case["layout"], case["codes"])
    if key not in _ARGS:
        _ARGS[key] = e2e.mk_args(solver_command=e2e.YICES if case["solver"] == "yices" else e2e.Z3, storage_layout=case["layout"], panic_error_codes=parse_codes(case["codes"]), solver_timeout_assertion=5.0)
    cj, creation, runtime = build(case)
    fails = []
    try:
        r = e2e.run(cj, args=_ARGS[key])
    except Exception as e:
        return [(["run-raise", type(e).__name__], repr(e)[:300])]
    res = r.by_sig()
    if len(r.results) != len(case["tests"]):
        return [(["setup-failed"], f"{len(r.results)} results for {len(case['tests'])} tests; warnings={r.warnings()[:3]}")]
    rng = random.Random(case["tests"][0]["seed"])
    for n, t in enumerate(case["tests"]):
        sig = f"check_t{n}({','.join(t['params'])})"
        tr = res[sig]
        wit = t["witness"]
        eff = effective_failure(t, case["codes"])
        gt = ground_truth_z3(t, case["store"])
        planted = t["reachable"]
        if (gt == z3.sat) != planted and gt != z3.unknown:
            fails.append((["harness", "ground-truth-disagrees"], f"planted reachable={planted} but z3 says {gt} for {t['atoms']}"))
            continue
        reach = planted and eff
        if planted:
            # the witness must really trigger the failure on the reference EVM
            try:
                rf = ref_fails(case, cj, n, t, wit["words"], wit["lens"], wit["data0"], rng)
            except Exception as e:
                fails.append((["harness", "ref-raise"], repr(e)[:200]))
                continue
            if rf != eff:
                fails.append((["harness", "witness-replay"], f"reference fails={rf} expected {eff} for {t['atoms']} kind={t['kind']}"))
                continue
        warned = bool(tr.num_bounded_loops) or any(sig in w_ or "incomplete" in w_ for w_ in r.warnings())
        if reach and tr.exitcode == 0 and not warned:
            fails.append((["reachable-failure-passed", t["kind"], case["solver"]], f"{sig}: PASS but witness {wit} satisfies {t['atoms']} (kind {t['kind']}, codes {case['codes']}, layout {case['layout']})"))
        if tr.exitcode == 0 and not reach:
            # PASS: cross-check on sampled inputs (none may fail)
            for _ in range(3):
                ws = [rng.choice([rng.choice(BOUNDARY), rng.randrange(0, 300), x]) for x in wit["words"]]
                ls = [rng.choice(CANDS[p]) for p in t["params"] if p in CANDS]
                try:
                    if ref_fails(case, cj, n, t, ws, ls, wit["data0"], rng):
                        fails.append((["pass-but-reference-fails", t["kind"]], f"{sig}: PASS but reference fails for words={ws} lens={ls}"))
                        break
                except Exception:
                    break
        if acc is not None:
            nt = (reach and (len(t["atoms"]) >= 2 or any(p in CANDS for p in t["params"]) or any(a[0] == "st" for a in t["atoms"]))) or (not planted and len(t["atoms"]) >= 2)
            acc.case({"t": t, "cfg": key}, nt, klass=[t["kind"], "reachable" if reach else ("unreachable" if not planted else "ineffective"), case["solver"], case["layout"], f"exit:{tr.exitcode}"],
                     sample={"params": t["params"], "atoms": t["atoms"], "kind": t["kind"], "reachable": reach, "exitcode": tr.exitcode})
    return fails


def shards(tier):
    n = 14 if tier == "quick" else 600
    return [{"n": n} for _ in range(16)]


def run_shard(spec, seed, tier):
    acc = Acc()

    def body(case):
        for b, d in run_case(case, acc):
            acc.fail(b, case, d)

    run_cases(case_st(), body, spec["n"], seed)
    return acc


def replay(case):
    return [{"bucket": b, "detail": d} for b, d in run_case(case)]


def shrink(case, same):
    for i in range(len(case["tests"])):
        c2 = dict(case, tests=[case["tests"][i]])
        if same(c2):
            return c2
    return case
