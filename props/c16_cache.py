"""C16 — the unsat-core cache never changes a verdict.

(i) end to end: generated test functions with a shared prefix guard and many failure sites whose
    paths are unsatisfiable for different reasons (many cores, re-used across paths) or
    satisfiable; each contract is run in one process with --cache-solver off and on, several
    tests per contract, with gc.collect() forced between explored paths; exit codes and numbers
    of counterexamples must be identical and every counterexample must replay (C04 oracle).
(ii) API level, mirroring run_test: a setUp path, 1-4 tests each with its own FunctionContext of
    one ContractContext, every path extends the setUp path, queries are small QF_BV constraint
    sets drawn from a shared pool plus fresh atoms (ground truth from an independent z3 call),
    cores are recorded through FunctionContext.append_unsat_core; the Path objects of earlier
    queries are dropped and collected (constraint identifiers may be recycled), others kept;
    solve_end_to_end must never answer `unsat` for a satisfiable query (nor `sat` for an
    unsatisfiable one).
(iii) long cores: strict cycles of 21-44 links (more ids than the solver prints on one line)
    followed by the same sets with one or two links removed.
(iv) identifiers: thousands of structurally similar live constraints on one path must get pairwise
    distinct assertion ids.
Schedules: solver tasks completing inline before the next path (most cache use) or in the
thread pool (default).
"""

from __future__ import annotations

import gc
import os
import random
import shutil

import z3

from props import c03_pass as c03
from props import c04_cex as c04
from vfw import cheats, e2e, sym
from vfw.hyp import run_cases, st
from vfw.runner import Acc

PROPERTY = "C16"
LEVEL = "exploration"
RULE = (
    "case kinds: (e2e) contract with 1-3 tests, each = prefix guard + 3-8 failure sites (unsat for different reasons / sat), "
    "run with the cache off and on in one process with forced collections; (api) setUp path + 1-4 tests of <=10 queries, each test with its own FunctionContext, dropped/kept paths; (chain) cores of 21-44 ids; "
    "Non-trivial = a history in which >=1 query was answered from the cache "
    "(observed: no solver output file for it); distinct by content."
)
ASSUMPTIONS = [
    "yices' unsat answers and cores are trusted; satisfiable ground truth comes from an independent z3 check / the planted witness",
    "with the cache on the solver may return a different model: counterexamples are compared by count and by replay, not by value",
]
WATCHDOG_S = {"quick": 2400, "thorough": 10800}

MANIFEST = {
    "technique": "metamorphic testing (cache off vs on in one process, forced garbage collection between paths) on generated many-core test functions, plus model-based histories of solve_end_to_end through per-test FunctionContexts of one ContractContext (dropped/kept paths, several tests, cores of up to 44 ids) with independent sat/unsat ground truth",
    "text": "Generated contracts whose tests have a shared prefix guard and several failure sites (unsatisfiable for different reasons so that many cores are stored and re-used, or satisfiable) are verified twice in the same process, without and with --cache-solver and with collections forced between paths: exit codes and counterexample counts must agree and counterexamples must replay; at API level, histories of queries with known satisfiability (small bit-vector constraint sets and long strict cycles whose cores exceed one output line) are pushed through solve_end_to_end the way run_test does it - one FunctionContext per test, paths extending the setUp path, cores recorded after each unsat answer - while earlier paths and whole tests are dropped and collected, and a satisfiable query must never come back unsat.",
    "note": "trusts yices for unsat answers and z3 (independent call) for the ground truth of the API-level histories",
}


def site_st(nwords):
    """a failure site: guard atoms (relative to witness words) + whether it is satisfiable"""
    return st.tuples(st.integers(0, nwords - 1), st.sampled_from(["contra-prefix", "contra-self", "sat-eq", "sat-range", "contra-prefix", "contra-prefix2"]), st.integers(0, 1 << 30))


def case_st():
    def mk(ntests, seeds, nsites, store):
        tests = []
        for ti in range(ntests):
            rng = random.Random(seeds[ti])
            nwords = 3
            words = [rng.randrange(20, 200) for _ in range(nwords)]
            # prefix: w0 > 10 and w1 < 1000 (true at the witness)
            prefix = [["gt", 0, 10], ["lt", 1, 1000]]
            sites = []
            for si in range(nsites[ti]):
                kind = rng.choice(["contra-prefix", "contra-prefix", "contra-prefix2", "contra-self", "sat-eq", "sat-range"])
                sel = ["eq", 2, si]
                if kind == "contra-prefix":
                    g, sat = [sel, ["lt", 0, rng.choice([5, 5, 5, 9])]], False
                elif kind == "contra-prefix2":
                    g, sat = [sel, ["gt", 1, rng.choice([1000, 1000, 1000, 5000])]], False
                elif kind == "contra-self":
                    v = rng.randrange(1 << 64)
                    g, sat = [sel, ["eq", 0, v], ["eq", 0, v + 1]], False
                elif kind == "sat-eq":
                    g, sat = [sel, ["eq", 0, words[0]]], True
                else:
                    g, sat = [sel, ["gt", 0, 50], ["lt", 0, 1 << 200]], True
                sites.append({"guard": g, "sat": sat})
            tests.append({"prefix": prefix, "sites": sites, "seed": seeds[ti]})
        return {"kind": "e2e", "tests": tests, "store": store}

    return st.builds(mk, st.integers(1, 3), st.lists(st.integers(0, 1 << 30), min_size=3, max_size=3), st.lists(st.integers(3, 8), min_size=3, max_size=3), st.integers(1, 1000))


PARAMS = ["uint256", "uint256", "uint256"]


def build(case):
    lay = c03.layout_of(PARAMS)
    fns = [{"sig": "setUp()", "body": [["sstore", ["c", 0], ["c", case["store"]]]]}]
    for n, t in enumerate(case["tests"]):
        inner = []
        for s in t["sites"]:
            b = e2e.panic_stmts(1)
            for a in reversed(s["guard"]):
                b = [["if", c03.atom_expr(a, lay), b, []]]
            inner += b
        body = inner
        for a in reversed(t["prefix"]):
            body = [["if", c03.atom_expr(a, lay), body, []]]
        fns.append({"sig": f"check_c{n}(uint256,uint256,uint256)", "body": body + [["stop"]]})
    return e2e.artifact("T", fns)


class GcBetweenPaths:
    def __enter__(self):
        import halmos.sevm as S

        self.S = S
        self.orig = S.SEVM.run_message

        def run_message(sevm, pre_ex, message, path):
            for ex in self.orig(sevm, pre_ex, message, path):
                gc.collect()
                yield ex
                gc.collect()

        S.SEVM.run_message = run_message
        return self

    def __exit__(self, *a):
        self.S.SEVM.run_message = self.orig


class InlinePool:
    """schedule control: every solver task completes before the next path is explored (the schedule
    under which the cache is consulted most often); the default schedule is kept for other cases"""

    def __init__(self, on):
        self.on = on

    def __enter__(self):
        import concurrent.futures as cf

        import halmos.solve as HS

        self.HS, self.orig = HS, HS.ThreadPoolExecutor
        if self.on:

            class Pool:
                def __init__(self, *a, **k):
                    pass

                def submit(self, fn, *a, **k):
                    f = cf.Future()
                    try:
                        f.set_result(fn(*a, **k))
                    except BaseException as e:  # noqa: BLE001 -- delivered through the future, as a pool does
                        f.set_exception(e)
                    return f

                def shutdown(self, wait=True, cancel_futures=False):
                    pass

            HS.ThreadPoolExecutor = Pool
        return self

    def __exit__(self, *a):
        self.HS.ThreadPoolExecutor = self.orig


class UnknownBranching:
    def __init__(self, seed, rate=0.7):
        self.seed, self.rate = seed, rate

    def __enter__(self):
        import halmos.sevm as S

        self.S = S
        self.orig = S.Path.check
        rng = random.Random(self.seed)
        orig = self.orig

        def check(path, cond):
            if rng.random() < self.rate:
                return z3.unknown
            return orig(path, cond)

        S.Path.check = check
        return self

    def __exit__(self, *a):
        self.S.Path.check = self.orig


def run_e2e_case(case, acc=None):
    cj, _, _ = build(case)
    dd = os.path.join(os.environ.get("VERIF_HOME", "/verif"), ".work", "c16", str(os.getpid()))
    res = {}
    cached_answers = 0
    fails = []
    for cache in (False, True, False):
        shutil.rmtree(dd, ignore_errors=True)
        os.makedirs(dd, exist_ok=True)
        a = e2e.mk_args(cache_solver=cache, solver_timeout_assertion=30.0, dump_smt_queries=True, dump_smt_directory=dd)
        try:
            # the branching solver is made to answer `unknown` for a seeded subset of its calls (as it
            # does under its 1 ms budget on larger formulas), so that infeasible failure paths reach
            # the assertion solver and produce unsat cores
            with GcBetweenPaths(), UnknownBranching(case["tests"][0]["seed"], rate=1.0 if case["store"] % 2 else 0.7), InlinePool(case["store"] % 3 != 0):
                r = e2e.run(cj, args=a, capture=False)  # keeping Execs alive would pin term ids
        except Exception as e:
            return [(["run-raise", type(e).__name__], repr(e)[:300])]
        key = "on" if cache else ("off" if "off" not in res else "off2")
        res[key] = {k: (v.exitcode, v.num_models) for k, v in r.by_sig().items()}
        if cache:
            # queries answered from the cache never reach solve_low_level: no .smt2.out for that failing path
            import glob

            for n, t in enumerate(case["tests"]):
                nfail_paths = sum(1 for c in r.cap.cex if c["fun"].startswith(f"check_c{n}("))
                nouts = len([f for f in glob.glob(os.path.join(dd, f"check_c{n}", "*.smt2.out")) if ".refined." not in f])
                cached_answers += max(0, nfail_paths - nouts)
            # replay every counterexample found with the cache on
            for n, t in enumerate(case["tests"]):
                sig = f"check_c{n}(uint256,uint256,uint256)"
                tr = r.by_sig().get(sig)
                for m in (tr.models or []) if tr else []:
                    if not m.is_valid:
                        continue
                    consts = {k: v.value for k, v in m.model.items()}
                    raw = c04.calldata_from_model(sig, {"params": PARAMS}, consts)
                    ch = cheats.Cheats()
                    w, evm = e2e.ref_setup(cj, cheats=ch)
                    rr = e2e.call(evm, raw)
                    if not e2e.failed(rr):
                        fails.append((["cache-on", "counterexample-does-not-replay"], f"{sig}: {consts}"))
    shutil.rmtree(dd, ignore_errors=True)
    if res["off"] != res["off2"]:
        # not a cache effect (solver nondeterminism): do not judge
        if acc is not None:
            acc.exclude("baseline-nondeterministic")
        return fails
    if res["on"] != res["off"]:
        diffs = {k: (res["off"][k], res["on"].get(k)) for k in res["off"] if res["off"][k] != res["on"].get(k)}
        fails.append((["verdict-changes-with-cache"], f"(exit, #models) off vs on: {diffs}; tests={[[s['sat'] for s in t['sites']] for t in case['tests']]}"))
    # ground truth: a test with a satisfiable site must FAIL (cache on)
    for n, t in enumerate(case["tests"]):
        sig = f"check_c{n}(uint256,uint256,uint256)"
        if any(s["sat"] for s in t["sites"]) and res["on"].get(sig, (None,))[0] == 0:
            fails.append((["cache-on", "reachable-failure-passed"], f"{sig}: sites {[s['sat'] for s in t['sites']]}"))
    if acc is not None:
        acc.case(case, cached_answers > 0, klass=["e2e", "cache-hit" if cached_answers else "no-hit"], sample={"tests": [[(s["guard"], s["sat"]) for s in t["sites"]] for t in case["tests"]]})
        acc.extra["cache_answers"] = acc.extra.get("cache_answers", 0) + cached_answers
    return fails


# ---------------------------------------------------------------- API-level histories

VARS = ["x", "y", "z", "u"]
OPS = ["ult", "ugt", "eq", "ne", "ule", "sum0", "xor", "odd"]


def mk_atom(a, V):
    """atom = [op, lhs, rhs]; lhs a variable name, rhs a variable name or an 8-bit constant"""
    op, l, r = a
    lhs = V(l)
    rhs = V(r) if isinstance(r, str) else z3.BitVecVal(r, 8)
    if op == "ult":
        return z3.ULT(lhs, rhs)
    if op == "ugt":
        return z3.UGT(lhs, rhs)
    if op == "ule":
        return z3.ULE(lhs, rhs)
    if op == "eq":
        return lhs == rhs
    if op == "ne":
        return lhs != rhs
    if op == "sum0":
        return lhs + rhs == 0
    if op == "xor":
        return lhs ^ rhs == 0x5A
    if op == "odd":
        return (lhs & 1) == (rhs & 1)
    raise ValueError(op)


def atom_st():
    return st.tuples(st.sampled_from(OPS + ["ult", "ugt", "eq"]), st.sampled_from(VARS), st.one_of(st.sampled_from(VARS), st.integers(0, 255), st.sampled_from([0, 1, 5, 10, 255]))).map(list)


def history_st():
    """a setUp path with 0-2 conditions and 1-4 tests of 3-10 queries; the queries of one case draw
    their atoms from a shared pool (so that cores recur) plus test-specific fresh atoms (so that
    new terms are created after earlier ones were reclaimed)"""
    def mk(pool, contra, setup, tests):
        v, c = contra
        pool = pool + [["ult", v, c], ["ugt", v, c], ["eq", v, c]]
        out = []
        for t in tests:
            qs = []
            for idxs, fresh, keep in t:
                atoms = [pool[k % len(pool)] for k in idxs] + fresh
                qs.append({"atoms": atoms, "keep": keep})
            out.append(qs)
        return {"kind": "api", "setup": setup, "tests": out}

    q = st.tuples(st.lists(st.integers(0, 40), min_size=1, max_size=5, unique=True), st.lists(atom_st(), max_size=2), st.sampled_from([True, True, False]))
    return st.builds(mk, st.lists(atom_st(), min_size=3, max_size=7), st.tuples(st.sampled_from(VARS), st.integers(1, 254)), st.lists(atom_st(), max_size=2), st.lists(st.lists(q, min_size=3, max_size=10), min_size=1, max_size=4))


def chain_st():
    """long cores: a strict cycle v0 < v1 < ... < v(n-1) < v0 (minimal core = all n links, more than a
    solver prints on one line), then the same set with one or two links removed (satisfiable)"""
    def mk(n, drops, keep_full, extra):
        links = [["ult", f"v{k}", f"v{(k + 1) % n}"] for k in range(n)]
        qs = [{"atoms": links, "keep": keep_full}]
        for d in drops:
            d = [k % n for k in d]
            qs.append({"atoms": [l for k, l in enumerate(links) if k not in d] + extra, "keep": True})
        qs.append({"atoms": links + [["ne", "v0", 77]], "keep": True})  # contains the whole core: cache
        return {"kind": "api", "setup": [], "tests": [qs]}

    return st.builds(mk, st.integers(21, 44), st.lists(st.lists(st.integers(0, 43), min_size=1, max_size=2), min_size=3, max_size=8), st.booleans(), st.lists(atom_st(), max_size=1))


def run_api_case(case, acc=None):
    """mirrors run_test: every test owns a FunctionContext (and its solving context) of one
    ContractContext, every path extends the setUp path, cores are recorded through
    FunctionContext.append_unsat_core as CounterexampleHandler does"""
    from halmos.__main__ import mk_solver
    from halmos.calldata import FunctionInfo
    from halmos.sevm import Path
    from halmos.solve import ContractContext, FunctionContext, PathContext, solve_end_to_end

    dd = os.path.join(os.environ.get("VERIF_HOME", "/verif"), ".work", "c16api", str(os.getpid()))
    shutil.rmtree(dd, ignore_errors=True)
    os.makedirs(dd, exist_ok=True)
    a = e2e.mk_args(cache_solver=True, solver_timeout_assertion=30.0, dump_smt_queries=True, dump_smt_directory=dd)
    cctx = ContractContext(args=a, name="C", funsigs=[f"check_t{i}()" for i in range(len(case["tests"]))], creation_hexcode="", deployed_hexcode="", abi={}, method_identifiers={}, contract_json={}, libs={}, build_out_map={})
    V = lambda name: z3.BitVec(f"p_{name}_uint8_00", 8)
    # setUp path: conditions that are jointly satisfiable (else: no test would run)
    setup_atoms = list(case["setup"])
    s0 = z3.Solver()
    s0.add(*[mk_atom(t, V) for t in setup_atoms])
    if s0.check() != z3.sat:
        setup_atoms = []
    setup_atoms = [t for t in setup_atoms if not z3.is_false(z3.simplify(mk_atom(t, V)))]
    setup_path = Path(mk_solver(a))
    for t in setup_atoms:
        setup_path.append(mk_atom(t, V))
    del s0
    import contextlib
    import io

    with contextlib.redirect_stdout(io.StringIO()):
        return _run_api_tests(case, acc, a, cctx, V, setup_atoms, setup_path, dd)


def _run_api_tests(case, acc, a, cctx, V, setup_atoms, setup_path, dd):
    from halmos.__main__ import mk_solver
    from halmos.calldata import FunctionInfo
    from halmos.sevm import Path
    from halmos.solve import FunctionContext, PathContext, solve_end_to_end

    fails = []
    hits = 0
    longest = 0
    try:
        for ti, test in enumerate(case["tests"]):
            info = FunctionInfo("C", f"check_t{ti}", f"check_t{ti}()", "00000000")
            ctx = FunctionContext(args=a, info=info, solver=None, contract_ctx=cctx)
            kept = []
            try:
                for i, q in enumerate(test):
                    conds = [mk_atom(t, V) for t in setup_atoms + q["atoms"]]
                    # halmos never appends a literally false condition (InfeasiblePath is raised before)
                    conds = conds[: len(setup_atoms)] + [c for c in conds[len(setup_atoms):] if not z3.is_false(z3.simplify(c))]
                    s = z3.Solver()
                    s.add(*conds)
                    truth = s.check()
                    path = Path(mk_solver(a))
                    path.extend_path(setup_path)
                    for c in conds[len(setup_atoms):]:
                        path.append(c)
                    query = path.to_smt2(a)
                    pctx = PathContext(args=a, path_id=i, solving_ctx=ctx.solving_ctx, query=query)
                    out = solve_end_to_end(pctx)
                    from_cache = not os.path.exists(str(pctx.dump_file) + ".out")
                    hits += from_cache
                    if str(out.result) == "unsat" and truth == z3.sat:
                        fails.append((["api", "false-unsat", "from-cache" if from_cache else "solver"], f"test #{ti} query #{i} atoms {q['atoms'][:8]} (+setUp {setup_atoms}) is satisfiable but solve_end_to_end says unsat ({len(q['atoms'])} atoms)"))
                        return fails
                    if str(out.result) == "sat" and truth == z3.unsat:
                        fails.append((["api", "false-sat"], f"test #{ti} query #{i}"))
                        return fails
                    if str(out.result) == "unsat" and out.unsat_core:
                        longest = max(longest, len(out.unsat_core))
                        ctx.append_unsat_core(out.unsat_core)
                    if q["keep"]:
                        kept.append((path, conds))
                    del path, conds, s, query, pctx, out
                    gc.collect()
            finally:
                ctx.thread_pool.shutdown(wait=True)
                ctx.solving_ctx.executor.shutdown(wait=True)
            # the test is over: its paths, contexts and terms are reclaimed
            del kept, ctx
            gc.collect()
    finally:
        shutil.rmtree(dd, ignore_errors=True)
        if acc is not None:
            acc.case(case, hits > 0, klass=["api", "cache-hit" if hits else "no-hit", f"tests:{len(case['tests'])}"] + (["core>20-ids"] if longest > 20 else []))
            acc.extra["api_cache_answers"] = acc.extra.get("api_cache_answers", 0) + hits
            acc.extra["longest_core"] = max(acc.extra.get("longest_core", 0), longest)
    return fails


def run_ids_case(case, acc=None):
    """the cache identifies constraints by their assertion ids: distinct live constraints of one
    query must get distinct ids (thousands of structurally similar conditions on one path)"""
    from halmos.__main__ import mk_solver
    from halmos.sevm import Path

    a = e2e.mk_args(cache_solver=True)
    x, y = z3.BitVec("p_x_uint256_00", 256), z3.BitVec("p_y_uint256_00", 256)
    path = Path(mk_solver(a))
    base = case["base"]
    conds = []
    for c in range(base, base + case["n"]):
        conds += [x == c, z3.ULT(y, c + 1)] if case["two"] else [x == c]
    # (Path.append is quadratic in the number of conditions; to_smt2 only reads the condition table)
    for c_ in conds:
        path.conditions[z3.simplify(c_)] = True
    try:
        q = path.to_smt2(a)
    except z3.Z3Exception as e:
        # e.g. 'named assertion defined twice': two live constraints were given the same id
        if acc is not None:
            acc.case(case, True, klass=["ids", "raise"])
        return [(["ids", "to_smt2-raises"], f"{len(path.conditions)} distinct constraints (base {base}): {e!r}"[:300])]
    ids = list(q.assertions)
    fails = []
    if len(ids) != len(path.conditions):
        fails.append((["ids", "count"], f"{len(ids)} ids for {len(path.conditions)} conditions"))
    if len(set(ids)) != len(ids):
        import collections

        dup = [k for k, v in collections.Counter(ids).items() if v > 1][:3]
        fails.append((["ids", "not-unique"], f"{len(ids) - len(set(ids))} of {len(ids)} distinct live constraints share an assertion id, e.g. {dup} (base {base})"))
    if acc is not None:
        acc.case(case, True, klass=["ids", f"n:{len(ids)}"])
    return fails


def shards(tier):
    n = 9 if tier == "quick" else 200
    return [{"mode": "e2e", "n": n} for _ in range(10)] + [{"mode": "api", "n": 5 * n} for _ in range(4)] + [{"mode": "chain", "n": n} for _ in range(2)] + [{"mode": "ids", "n": 3}]


def run_shard(spec, seed, tier):
    acc = Acc()
    fn = run_e2e_case if spec["mode"] == "e2e" else (run_ids_case if spec["mode"] == "ids" else run_api_case)
    ids_st = lambda: st.builds(lambda b, n_, two: {"kind": "ids", "base": b, "n": n_, "two": two}, st.sampled_from([0, 1 << 64, (1 << 255) - 3000]), st.sampled_from([6000, 4000]), st.booleans())  # noqa: E731
    strat = {"e2e": case_st, "api": history_st, "chain": chain_st, "ids": ids_st}[spec["mode"]]()

    def body(case):
        for b, d in fn(case, acc):
            acc.fail(b, case, d)

    run_cases(strat, body, spec["n"], seed)
    return acc


def run_case(case, acc=None):
    if case.get("kind") == "ids":
        return run_ids_case(case, acc)
    return run_e2e_case(case, acc) if case.get("kind") == "e2e" else run_api_case(case, acc)


def replay(case):
    return [{"bucket": b, "detail": d} for b, d in run_case(case)]
