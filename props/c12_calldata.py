"""C12 — symbolic calldata is a fully general, well-formed ABI encoding.

Generated ABI type trees (depth <= 3, arity <= 4) over {uintN, intN, address, bool, bytesN, bytes,
string, T[], T[k], tuple} with named and unnamed parameters, crossed with length-candidate
configurations (--array-lengths per name, --default-array-lengths, --default-bytes-lengths).
Oracles
  (a) an independent decoder over the symbolic ByteVec: follows concrete offset words, requires
      every length word to be a distinct size symbol registered with exactly the configured
      candidate list, and every leaf to be a distinct fresh symbol (pairwise different atoms);
  (b) instance check: for generated concrete argument tuples with lengths drawn from the
      candidates, leaves and size symbols are bound to the argument values and the resulting
      concrete bytes are decoded by an independent concrete ABI decoder -> must give back the tuple;
  (c) every candidate explored: a generated reader program loads every length word and returns
      them; the set of returned tuples over all paths = cartesian product of the candidate lists;
  (d) unsupported types (fixedMxN, ufixedMxN, function) raise, never return an encoding.
"""

from __future__ import annotations

import itertools
import random

import z3

from vfw import asm, sym, symeval
from vfw.hyp import run_cases, st
from vfw.runner import Acc

PROPERTY = "C12"
LEVEL = "exploration"
RULE = (
    "case = (function signature as a JSON ABI type tree, length-candidate configuration, 3 concrete argument tuples). "
    "Non-trivial = the tree has a dynamic type nested in a tuple/array or >=2 dynamic parameters; distinct by (tree, config)."
)
ASSUMPTIONS = [
    "candidate names follow the documented scheme: parameter name, `s.x` for tuple fields, `a[i]` for array elements",
    "the generalized encoding may carry elements beyond the chosen length (non-canonical but valid ABI data); padding bytes of bytes/string are unconstrained",
]
WATCHDOG_S = {"quick": 2400, "thorough": 10800}

MANIFEST = {
    "technique": "generated ABI type trees and length configurations; independent symbolic decoder (structure, distinct unconstrained atoms, registered candidates), instance check through an independent concrete ABI decoder, exhaustive candidate exploration through a generated reader program run by SEVM",
    "text": "For thousands of generated signatures and length-candidate configurations the calldata built by mk_calldata is decoded by an independent decoder that follows the ABI head/tail layout over symbolic words, checks that offsets are concrete and in bounds, that every length word is its own size symbol whose registered candidates equal the configured list, and that all leaves are pairwise distinct fresh symbols; random concrete argument tuples with candidate lengths are then substituted and the concrete bytes decoded back by a second, concrete ABI decoder; a reader program executed by SEVM must return exactly the cartesian product of the candidate lists; unsupported types must raise.",
    "note": "trusts the two decoders written here from the ABI specification; symeval evaluates the substituted calldata",
}

BASE = ["uint256", "uint8", "uint128", "int256", "int64", "address", "bool", "bytes32", "bytes4", "bytes1"]
NAMES = ["a", "b", "c", "x", "y", "amount", "to", "data", "s", ""]


def type_st(depth=3):
    base = st.sampled_from(BASE + ["bytes", "string", "uint256", "address"]).map(lambda t: {"type": t})

    def ext(ch):
        return st.one_of(
            ch.map(lambda t: arr(t, "")),
            st.builds(lambda t, k: arr(t, str(k)), ch, st.integers(1, 3)),
            st.lists(st.tuples(ch, st.sampled_from(NAMES)), min_size=1, max_size=3).map(lambda its: {"type": "tuple", "components": [dict(t, name=n) for t, n in its]}),
        )

    return st.recursive(base, ext, max_leaves=5)


def arr(t, k):
    d = dict(t)
    d["type"] = t["type"] + f"[{k}]"
    return d


def sig_of(inputs):
    def s(t):
        typ = t["type"]
        if typ.startswith("tuple"):
            return "(" + ",".join(s(c) for c in t["components"]) + ")" + typ[5:]
        return typ
    return "f(" + ",".join(s(t) for t in inputs) + ")"


# ---------------------------------------------------------------- own type model

def parse(t):
    """-> ("arr", inner, k|None) | ("tuple", [(name, ty)...]) | ("base", name)"""
    typ = t["type"]
    if typ.endswith("]"):
        i = typ.rindex("[")
        k = typ[i + 1 : -1]
        inner = dict(t)
        inner["type"] = typ[:i]
        return ("arr", parse(inner), int(k) if k else None)
    if typ == "tuple":
        return ("tuple", [(c.get("name", ""), parse(c)) for c in t["components"]])
    return ("base", typ)


def is_dynamic(ty):
    if ty[0] == "base":
        return ty[1] in ("bytes", "string")
    if ty[0] == "arr":
        return ty[2] is None or is_dynamic(ty[1])
    return any(is_dynamic(x) for _, x in ty[1])


def head_size(ty):
    if is_dynamic(ty):
        return 32
    if ty[0] == "base":
        return 32
    if ty[0] == "arr":
        return ty[2] * head_size(ty[1])
    return sum(head_size(x) for _, x in ty[1])


def dyn_names(name, ty, cfgmax, out):
    """names (documented scheme) of all dynamic-length parameters reachable, given per-name max sizes"""
    if ty[0] == "base":
        if ty[1] in ("bytes", "string"):
            out.append((name, "bytes"))
    elif ty[0] == "arr":
        if ty[2] is None:
            out.append((name, "array"))
            n = cfgmax(name, "array")
        else:
            n = ty[2]
        for i in range(n):
            dyn_names(f"{name}[{i}]", ty[1], cfgmax, out)
    else:
        for fn, ft in ty[1]:
            dyn_names(f"{name}.{fn}" if name else fn, ft, cfgmax, out)


# ---------------------------------------------------------------- symbolic decoder (a)

class Bad(Exception):
    pass


def sym_decode(cd, ty, name, base, off, cands, leaves, sizes):
    """decode one value of type ty whose *head slot* starts at absolute offset `off`; dynamic
    types have an offset word relative to `base`."""
    if is_dynamic(ty):
        w = cd.get_word(off)
        if not isinstance(w, int):
            w = w.as_long() if z3.is_bv_value(w) else None
        if w is None:
            raise Bad(f"offset word of {name!r} at {off} is not concrete")
        return sym_decode_at(cd, ty, name, base + w, cands, leaves, sizes)
    return sym_decode_at(cd, ty, name, off, cands, leaves, sizes)


def sym_decode_at(cd, ty, name, at, cands, leaves, sizes):
    if at + 0 > len(cd):
        raise Bad(f"{name!r}: position {at} beyond calldata ({len(cd)})")
    if ty[0] == "base":
        if ty[1] in ("bytes", "string"):
            lw = cd.get_word(at)
            if isinstance(lw, int) or not z3.is_const(lw) or lw.decl().kind() != z3.Z3_OP_UNINTERPRETED:
                raise Bad(f"length word of {name!r} is not a size symbol: {lw}")
            sizes.append((name, lw, "bytes"))
            mx = max(cands(name, "bytes"))
            pad = (mx + 31) // 32 * 32
            if at + 32 + pad > len(cd):
                raise Bad(f"{name!r}: data [{at+32},{at+32+pad}) beyond calldata ({len(cd)})")
            data = cd.slice(at + 32, at + 32 + pad).unwrap() if pad else None
            leaves.append((name, "bytes", data, mx))
            return ("bytes", lw, data, mx)
        w = cd.get_word(at)
        if at + 32 > len(cd):
            raise Bad(f"{name!r}: word at {at} beyond calldata ({len(cd)})")
        if isinstance(w, int) or not z3.is_const(w) or w.decl().kind() != z3.Z3_OP_UNINTERPRETED:
            raise Bad(f"leaf {name!r} is not a fresh symbol: {w}")
        leaves.append((name, ty[1], w, 0))
        return ("word", w)
    if ty[0] == "arr":
        if ty[2] is None:
            lw = cd.get_word(at)
            if isinstance(lw, int) or not z3.is_const(lw) or lw.decl().kind() != z3.Z3_OP_UNINTERPRETED:
                raise Bad(f"length word of {name!r} is not a size symbol: {lw}")
            sizes.append((name, lw, "array"))
            n = max(cands(name, "array"))
            start = at + 32
        else:
            lw, n, start = None, ty[2], at
        elems = []
        pos = start
        for i in range(n):
            elems.append(sym_decode(cd, ty[1], f"{name}[{i}]", start, pos, cands, leaves, sizes))
            pos += head_size(ty[1])
        return ("arr", lw, elems)
    elems = []
    pos = at
    for fn, ft in ty[1]:
        elems.append(sym_decode(cd, ft, f"{name}.{fn}" if name else fn, at, pos, cands, leaves, sizes))
        pos += head_size(ft)
    return ("tuple", elems)


# ---------------------------------------------------------------- concrete ABI decoder (b)

def conc_decode(data, ty, base, off):
    if is_dynamic(ty):
        rel = int.from_bytes(data[off : off + 32], "big")
        return conc_decode_at(data, ty, base + rel)
    return conc_decode_at(data, ty, off)


def conc_decode_at(data, ty, at):
    if ty[0] == "base":
        if ty[1] in ("bytes", "string"):
            n = int.from_bytes(data[at : at + 32], "big")
            if at + 32 + n > len(data):
                raise Bad("bytes out of bounds")
            return data[at + 32 : at + 32 + n]
        if at + 32 > len(data):
            raise Bad("word out of bounds")
        return int.from_bytes(data[at : at + 32], "big")
    if ty[0] == "arr":
        if ty[2] is None:
            n = int.from_bytes(data[at : at + 32], "big")
            start = at + 32
        else:
            n, start = ty[2], at
        out, pos = [], start
        for _ in range(n):
            out.append(conc_decode(data, ty[1], start, pos))
            pos += head_size(ty[1])
        return out
    out, pos = [], at
    for _, ft in ty[1]:
        out.append(conc_decode(data, ft, at, pos))
        pos += head_size(ft)
    return out


# ---------------------------------------------------------------- the check

def mk_args(case):
    from halmos.config import ConfigSource

    over = {"no_status": True}
    # (an empty configuration is left to the default layer, as on a command line without --array-lengths)
    if case.get("array_lengths"):
        over["array_lengths"] = {k: list(v) for k, v in case["array_lengths"].items()}
    if case.get("default_array_lengths"):
        over["default_array_lengths"] = list(case["default_array_lengths"])
    if case.get("default_bytes_lengths"):
        over["default_bytes_lengths"] = list(case["default_bytes_lengths"])
    return sym.base_config(**over)


def run_case(case, acc=None):
    from halmos.calldata import FunctionInfo, mk_calldata

    inputs = case["inputs"]
    sig = sig_of(inputs)
    args = mk_args(case)
    abi = {sig: {"type": "function", "name": "f", "inputs": inputs}}
    finfo = FunctionInfo("T", "f", sig, "aabbccdd")
    unsupported = case.get("unsupported")
    import copy

    from halmos.config import default_config

    before = copy.deepcopy(dict(args.array_lengths or {}))
    try:
        cd, dyn_params = mk_calldata(abi, finfo, args)
        # building calldata must not write into the configuration it reads (the dict belongs to a
        # config layer that other functions and contracts resolve their lengths from)
        if dict(args.array_lengths or {}) != before:
            return [(["config-mutated", "array_lengths"], f"{sig}: array_lengths was {before}, is {dict(args.array_lengths)} after mk_calldata")]
        if dict(default_config().array_lengths or {}) != {}:
            return [(["config-mutated", "default-layer"], f"{sig}: default_config().array_lengths is now {dict(default_config().array_lengths)}")]
    except NotImplementedError:
        if unsupported:
            return []
        return [(["raise", "NotImplementedError"], sig)]
    except Exception as e:
        return [(["raise", type(e).__name__], f"{sig}: {e!r}")]
    if unsupported:
        return [(["unsupported-type-encoded"], f"{sig} produced {len(cd)} bytes")]

    def cands(name, kind):
        al = case.get("array_lengths") or {}
        if name in al:
            return list(al[name])
        if kind == "array":
            return list(case.get("default_array_lengths") or [0, 1, 2])
        return list(case.get("default_bytes_lengths") or [0, 65, 1024])

    ty = ("tuple", [(t.get("name", ""), parse(t)) for t in inputs])
    leaves, sizes = [], []
    fails = []
    try:
        if bytes(cd.slice(0, 4).unwrap()) != bytes.fromhex("aabbccdd"):
            return [(["selector"], sig)]
        tree = sym_decode_at(cd, ty, "", 4, cands, leaves, sizes)
    except Bad as e:
        return [(["structure"], f"{sig} cfg={case.get('array_lengths')}: {e}")]
    except Exception as e:
        return [(["structure-raise", type(e).__name__], f"{sig}: {e!r}")]
    # distinct atoms
    atoms = [str(w) for (_, _, w, _) in leaves if w is not None] + [str(s) for _, s, _k in sizes]
    if len(set(atoms)) != len(atoms):
        dup = [a for a in set(atoms) if atoms.count(a) > 1][:2]
        fails.append((["atoms-not-independent"], f"{sig}: symbols used more than once: {dup}"))
    # candidates registered
    reg = {str(d.size_symbol): list(d.size_choices) for d in dyn_params}
    for name, s, kind in sizes:
        want = cands(name, kind)
        if reg.get(str(s)) != want:
            fails.append((["candidates"], f"{sig}: size symbol of {name!r} registered with {reg.get(str(s))} expected {want}"))
    if len(reg) != len(sizes):
        fails.append((["candidates-count"], f"{sig}: {len(reg)} registered size symbols, {len(sizes)} length words reachable"))
    if fails:
        return fails
    # (b) instances
    rng = random.Random(case.get("seed", 0))
    for trial in range(3):
        consts = {}
        chosen = {}
        for name, s, kind in sizes:
            chosen[name] = rng.choice(cands(name, kind))
            consts[str(s)] = chosen[name]
        for (name, t, w, mx) in leaves:
            if w is None:
                continue
            bits = w.size()
            consts[str(w)] = rng.getrandbits(bits) if rng.random() < 0.8 else (1 << bits) - 1
        env = symeval.Env(consts)
        try:
            raw = sym.bytevec_value(cd, env)
            got = conc_decode_at(raw, ty, 4)
        except (Bad, symeval.Unbound) as e:
            fails.append((["instance-decode"], f"{sig} sizes={chosen}: {e}"))
            break
        exp = expected_value(tree, consts)
        if got != exp:
            fails.append((["instance-mismatch"], f"{sig} sizes={chosen}: decoded {str(got)[:200]} expected {str(exp)[:200]}"))
            break
    # (c) every candidate combination explored
    if not fails and sizes and case.get("explore", True):
        total = 1
        for name, s, kind in sizes:
            total *= len(set(cands(name, kind)))
        if total <= 40:
            fails += explore(cd, dyn_params, sizes, ty, cands, args, sig)
    if acc is not None:
        nested = any("." in n or "[" in n for n, _, _k in sizes)
        acc.case(case, nested or len(sizes) >= 2, klass=[f"dyn:{min(len(sizes), 4)}", "nested" if nested else "flat"], sample={"sig": sig, "array_lengths": case.get("array_lengths")})
    return fails


def _kinds(ty, cands):
    out = []
    dyn_names("", ty, lambda n, k: max(cands(n, k)), out)
    return out


def expected_value(tree, consts):
    k = tree[0]
    if k == "word":
        return consts[str(tree[1])]
    if k == "bytes":
        n = consts[str(tree[1])]
        if tree[2] is None:
            return b""
        pad = tree[2].size() // 8
        return consts[str(tree[2])].to_bytes(pad, "big")[:n]
    if k == "arr":
        elems = [expected_value(e, consts) for e in tree[2]]
        if tree[1] is not None:
            elems = elems[: consts[str(tree[1])]]
        return elems
    return [expected_value(e, consts) for e in tree[1]]


def explore(cd, dyn_params, sizes, ty, cands, args, sig):
    """reader program: CALLDATALOAD every length word, return them; run through SEVM with the
    candidates registered the way run_test does"""
    from halmos.__main__ import mk_block, mk_solver
    from halmos.calldata import FunctionInfo
    from halmos.sevm import EMPTY_BALANCE, SEVM, CallContext, Contract, Message, Path
    from halmos.utils import EVM

    # positions of the size symbols in calldata
    pos = {}
    for off in range(4, len(cd) - 31, 32):
        w = cd.get_word(off)
        if not isinstance(w, int) and z3.is_const(w):
            for i, (name, s, _k) in enumerate(sizes):
                if z3.eq(w, s):
                    pos[i] = off
    if len(pos) != len(sizes):
        return [(["explore", "size-symbol-not-word-aligned"], sig)]
    prog = []
    for i, (name, s, _k) in enumerate(sizes):
        prog += [("PUSH", pos[i]), "CALLDATALOAD", ("PUSH", 32 * i), "MSTORE"]
    prog += [("PUSH", 32 * len(sizes)), ("PUSH", 0), "RETURN"]
    code = Contract(asm.assemble(prog))
    sevm = SEVM(args, FunctionInfo("T", "f", sig, "aabbccdd"))
    this = sym.con_addr(0x1000)
    path = Path(mk_solver(args))
    path.process_dyn_params(dyn_params)
    msg = Message(target=this, caller=z3.BitVecVal(1, 160), origin=z3.BitVecVal(1, 160), value=z3.BitVecVal(0, 256), data=cd, call_scheme=EVM.CALL)
    ex = sevm.mk_exec(code={this: code}, storage={this: sevm.mk_storagedata()}, transient_storage={this: sevm.mk_storagedata()}, balance=EMPTY_BALANCE, block=mk_block(), context=CallContext(message=msg), pgm=code, path=path)
    got = set()
    for e in sevm.run(ex):
        if sym.outcome(e) != "success":
            return [(["explore", "outcome"], f"{sig}: {sym.outcome(e)}")]
        d = e.context.output.data.unwrap()
        if not isinstance(d, bytes):
            return [(["explore", "symbolic-length"], f"{sig}: returned lengths are not concrete: {d}")]
        got.add(tuple(int.from_bytes(d[32 * i : 32 * i + 32], "big") for i in range(len(sizes))))
    lists = []
    for name, s, kind in sizes:
        lists.append(sorted(set(cands(name, kind))))
    want = set(itertools.product(*lists))
    if got != want:
        return [(["explore", "candidates-not-all-explored"], f"{sig}: missing {sorted(want - got)[:4]} extra {sorted(got - want)[:4]}")]
    return []


# ---------------------------------------------------------------- strategies

def case_st():
    def mk(types, names, seed, nal, dal, dbl, unsorted):
        seen = set()
        uniq = []
        for n in names:
            while n and n in seen:
                n = n + "_"
            seen.add(n)
            uniq.append(n)
        inputs = [dict(t, name=n) for t, n in zip(types, uniq)]
        ty = ("tuple", [(t.get("name", ""), parse(t)) for t in inputs])
        rng = random.Random(seed)
        al = {}
        # configure some of the dynamic parameters by name (documented scheme), iterating to a fixpoint
        for _ in range(3):
            def cmax(n, k):
                return max(al.get(n) or (dal if k == "array" else dbl))
            out = []
            dyn_names("", ty, cmax, out)
            for n, k in out:
                if n and n not in al and rng.random() < nal and "," not in n and "=" not in n:
                    sizes = sorted({rng.choice([0, 1, 2, 3]) for _ in range(rng.choice([1, 2, 3]))}) if k == "array" else sorted({rng.choice([0, 1, 31, 32, 33, 64, 65]) for _ in range(rng.choice([1, 2]))})
                    if unsorted and len(sizes) > 1:
                        sizes = sizes[::-1]
                    al[n] = sizes
        return {"inputs": inputs, "array_lengths": al, "default_array_lengths": dal, "default_bytes_lengths": dbl, "seed": seed}

    return st.builds(
        mk,
        st.lists(type_st(), min_size=1, max_size=4),
        st.lists(st.sampled_from(NAMES), min_size=4, max_size=4),
        st.integers(0, 1 << 30),
        st.sampled_from([0.0, 0.5, 1.0]),
        st.sampled_from([[0, 1, 2], [1], [0, 2], [3]]),
        st.sampled_from([[0, 65, 1024], [0, 32], [5], [0, 1, 33]]),
        st.booleans(),
    )


UNSUPPORTED = ["fixed128x18", "ufixed128x18", "function", "fixed", "ufixed8x1"]


def shards(tier):
    n = 500 if tier == "quick" else 6000
    return [{"n": n} for _ in range(15)] + [{"unsupported": True}]


def run_shard(spec, seed, tier):
    acc = Acc()
    if spec.get("unsupported"):
        rng = random.Random(seed)
        for u in UNSUPPORTED:
            for wrap in ("{}", "{}[]", "{}[2]", "tuple", "second"):
                if wrap == "tuple":
                    inputs = [{"name": "s", "type": "tuple", "components": [{"name": "x", "type": "uint256"}, {"name": "y", "type": u}]}]
                elif wrap == "second":
                    inputs = [{"name": "a", "type": "uint256"}, {"name": "b", "type": u}]
                else:
                    inputs = [{"name": "a", "type": wrap.format(u)}]
                case = {"inputs": inputs, "unsupported": True}
                acc.case(case, True, klass="unsupported")
                for b, d in run_case(case):
                    acc.fail(b, case, d)
        return acc

    def body(case):
        for b, d in run_case(case, acc):
            acc.fail(b, case, d)

    run_cases(case_st(), body, spec["n"], seed)
    return acc


def replay(case):
    return [{"bucket": b, "detail": d} for b, d in run_case(case)]
