"""C20 — tests are isolated from each other and results are deterministic.

(i) test-level (run_contract on hand-assembled contracts): setUp builds state (constant and
    symbolic storage values with assumptions, mapping entries, dealt balances, a warped
    timestamp); 3-5 tests each check that state under pinned arguments and then mutate it
    (storage, mappings, transient storage, balances, timestamp, code of another account, an
    unterminated prank observed through an echo contract).  Every test is run alone, and in
    the same process after the others in two orders, repeated ([f, g, f]), and with halmos' uid()
    rebound to ascending / descending suffix generators; the normalised result of a test (exit
    code, number of counterexamples, path counts, bounded loops, counterexample names and values
    with uid suffixes stripped) must be identical in every context.
(ii) invariant tests: contracts of the C15 grammar with two invariants are run as [i0], [i1],
    [i0,i1], [i1,i0], [i0,i1,i0]; verdict, counterexample count and path counts of each
    invariant must be identical (the frontier cache is shared between them).
(iii) path-level (SEVM.run through the C01 engine): programs whose two arms of a fork write
    different values to the same storage slot / memory word / transient slot, call a callee with
    different arguments, or use the branched-on term where halmos needs a concrete value (memory
    offset); every reported path must satisfy the C01 oracle against the reference EVM, in both arm
    orders and nested (a leak shows up as the other arm's value).
(iv) process stability: a test with 25-60 counterexamples is run 12-20 times in one forked process;
    the process must survive and every repetition must give the same result.
(v) collector schedule: 3-6 contracts of the C03 grammar are verified back to back in one forked
    process twice: as is, and with the cyclic garbage collector moved onto the solver threads (the
    automatic collector is switched off and gc.collect() runs on the solver thread at the start of
    the first assertion query of every test, while the main thread keeps executing paths; Python
    runs the collector on whichever thread happens to allocate, so this is a schedule halmos must
    tolerate).  The process
    must survive and every PASS/FAIL verdict must be the same in both schedules.
"""

from __future__ import annotations

import itertools
import random
import re

from props import c01_sound as c01
from props import c15_invariant as c15
from vfw import cheats, e2e, refevm
from vfw.hyp import run_cases, st
from vfw.runner import Acc

PROPERTY = "C20"
LEVEL = "exploration"
RULE = (
    "case kinds: (tests) contract with setUp state and 3-5 state-checking/mutating tests run alone, in two orders, repeated, "
    "under two uid generators; (inv) C15-grammar contract with two invariants in five run lists; (fork) program with a fork whose "
    "arms write different values to shared locations / concretise the branched-on term, checked path by path against the "
    "reference EVM; (gcthread) 3-6 C03-grammar contracts verified back to back in one process, normally and with the cyclic "
    "collector run on the solver threads. Non-trivial = (tests) a state-mutating test precedes a test that reads the same location; (inv) both "
    "invariants explored to depth >= 1; (fork) >= 2 reported paths; (gcthread) >= 1 assertion query solved after an "
    "earlier contract left garbage; distinct by content."
)
ASSUMPTIONS = [
    "counterexample values are compared exactly: every failing guard pins all arguments of the test by equalities, so the model is unique for the variables compared (only p_* argument symbols are compared by value)",
    "--early-exit is not generated for invariant tests (documented in get_frontier: a partially computed frontier may be reused)",
    "the branching solver runs without its (default 1 ms) time limit, so that path counts do not depend on machine load",
    "warnings are not part of the compared result (halmos de-duplicates some of them per process by design)",
    "gcthread: only verdicts that are PASS or FAIL in both schedules are compared (a solver time limit is not a verdict); a run that exceeds 600 s is excluded, not reported",
]
WATCHDOG_S = {"quick": 2400, "thorough": 10800}

MANIFEST = {
    "technique": "metamorphic testing over run histories: each generated test is run alone, after other state-mutating tests in several orders, repeatedly, and under different fresh-symbol suffix generators in one process, comparing normalised results; differential testing of sibling paths of generated forking programs against a reference EVM; schedule injection (cyclic collector moved onto the solver threads) for process stability",
    "text": "Generated contracts whose setUp builds constant and symbolic state and whose tests check and then mutate that state (storage, mappings, transient storage, balances, timestamp) are run through run_contract with each test alone, in permuted and repeated run lists in one process, and with uid() rebound to different suffix generators: exit code, counterexample count, path counts and normalised counterexamples of every test must be identical in all contexts; the same is done for pairs of invariant tests sharing the frontier cache; forking programs whose arms write different values to the same locations or need the branched-on term as a concrete value are explored by SEVM.run and every sibling path is compared with the reference EVM; process stability is checked by running many-counterexample tests repeatedly in one forked process and by verifying several generated contracts back to back under an injected schedule in which Python's cyclic garbage collector runs on the solver threads (the process must survive and give the same verdicts).",
    "note": "trusts the reference EVM and symeval for the path-level part; the test-level part needs no oracle beyond equality of normalised results",
}

ADDRS = [0xD00D01, 0xD00D02]
SLOTS = [0, 1, 2]
VALS = [0, 1, 7]


def vm_call(sig, *words):
    data = cheats.sel(sig).to_bytes(4, "big") + b"".join(int(w).to_bytes(32, "big") for w in words)
    return [["memw", 0x700, data.hex()], ["xcall", refevm.HEVM, 0x700, len(data), 0, 0]]


def create_uint(name, dst):
    nm = name.encode()
    data = cheats.sel("createUint256(string)").to_bytes(4, "big") + (32).to_bytes(32, "big") + len(nm).to_bytes(32, "big") + nm + bytes(32 - len(nm))
    return [["memw", 0x700, data.hex()], ["xcall", refevm.SVM, 0x700, len(data), dst, 32]]


def assume_lt(dst, bound):
    # vm.assume(mload(dst) < bound)
    head = cheats.sel("assume(bool)").to_bytes(4, "big")
    return [["memw", 0x700, head.hex()], ["mstore", 0x704, ["op2", "LT", ["mload", dst], ["c", bound]]], ["xcall", refevm.HEVM, 0x700, 36, 0, 0]]


ECHO_SLOT = 0x20
ECHO_RUNTIME = [["mstore", 0, ["env", "CALLER"]], ["return", 0, 32]]


def echo_creation():
    from vfw import asm, gen

    return asm.creation_code(gen.compile_body(ECHO_RUNTIME), b"")


def etch_call(addr, n):
    code = bytes([0x5B] * n)  # n JUMPDESTs
    data = cheats.sel("etch(address,bytes)").to_bytes(4, "big") + addr.to_bytes(32, "big") + (0x40).to_bytes(32, "big") + n.to_bytes(32, "big") + code + bytes((-n) % 32)
    return [["memw", 0x700, data.hex()], ["xcall", refevm.HEVM, 0x700, len(data), 0, 0]]


def setup_stmts(ops):
    out = [["create", "CREATE", ["c", 0], echo_creation().hex(), ["c", 0], 0x3E0], ["sstore", ["c", ECHO_SLOT], ["mload", 0x3E0]]]
    for n, op in enumerate(ops):
        k = op[0]
        if k == "sstore":
            out.append(["sstore", ["c", op[1]], ["c", op[2]]])
        elif k == "symstore":
            out += create_uint(f"v{n}", 0x680) + assume_lt(0x680, op[2]) + [["sstore", ["c", op[1]], ["mload", 0x680]]]
        elif k == "mapstore":
            out.append(["sstore", ["mapkey", ["c", op[2]], op[1] + 8], ["c", op[3]]])
        elif k == "symmapstore":
            out += create_uint(f"m{n}", 0x680) + [["sstore", ["mapkey", ["mload", 0x680], op[1] + 8], ["c", op[3]]]]
        elif k == "deal":
            out += vm_call("deal(address,uint256)", ADDRS[op[1]], op[2])
        elif k == "warp":
            out += vm_call("warp(uint256)", op[1])
    return out + [["stop"]]


def loc_expr(loc):
    k = loc[0]
    if k == "slot":
        return ["sload", ["c", loc[1]]]
    if k == "map":
        return ["sload", ["mapkey", ["c", loc[2]], loc[1] + 8]]
    if k == "tslot":
        return ["tload", ["c", loc[1]]]
    if k == "bal":
        return ["bal", ["c", ADDRS[loc[1]]]]
    if k == "ts":
        return ["env", "TIMESTAMP"]
    if k == "codesize":
        return ["extsize", ["c", ADDRS[loc[1]]]]
    if k == "echo":  # the msg.sender that a callee of this test sees (computed by echo_pre)
        return ["mload", 0x6C0]
    if k == "sha":  # keccak256 of the (possibly symbolic, set in setUp) word in a storage slot (hash_pre)
        return ["sha", 0x660, 32]
    raise ValueError(loc)


def hash_pre(loc):
    return [["mstore", 0x660, ["sload", ["c", loc[1]]]]]


def echo_pre():
    return [["call", "CALL", ["sload", ["c", ECHO_SLOT]], ["c", 0], 0x6A0, 0, 0x6C0, 32, 0x6E0]]


def mut_stmts(m):
    k = m[0]
    val = ["c", m[-1]] if not isinstance(m[-1], str) else e2e.arg(0)
    if k == "slot":
        return [["sstore", ["c", m[1]], val]]
    if k == "map":
        return [["sstore", ["mapkey", ["c", m[2]], m[1] + 8], val]]
    if k == "tslot":
        return [["tstore", ["c", m[1]], val]]
    if k == "bal":
        return vm_call("deal(address,uint256)", ADDRS[m[1]], m[-1] if not isinstance(m[-1], str) else 3)
    if k == "ts":
        return vm_call("warp(uint256)", m[-1] if not isinstance(m[-1], str) else 3)
    if k == "codesize":
        return etch_call(ADDRS[m[1]], (m[-1] if not isinstance(m[-1], str) else 3) + 1)
    if k == "echo":  # a prank that is still active when the test ends
        return vm_call("startPrank(address)", ADDRS[0] if m[-1] in (0, "arg") else ADDRS[1])
    raise ValueError(m)


def test_body(t):
    """pre-mutations; if (args pinned && state condition) panic; post-mutations"""
    body = []
    for m in t["pre"]:
        body += mut_stmts(m)
    cond = ["op2", "EQ", e2e.arg(0), ["c", t["pin"][0]]]
    if t["nargs"] == 2:
        cond = ["op2", "AND", cond, ["op2", "EQ", e2e.arg(1), ["c", t["pin"][1]]]]
    ck = t["check"]
    if ck["loc"][0] == "echo":
        body += echo_pre()
    if ck["loc"][0] == "sha":
        body += hash_pre(ck["loc"])
    scond = {"eq": ["op2", "EQ", loc_expr(ck["loc"]), ["c", ck["c"]]], "ne": ["op1", "ISZERO", ["op2", "EQ", loc_expr(ck["loc"]), ["c", ck["c"]]]], "lt": ["op2", "LT", loc_expr(ck["loc"]), ["c", ck["c"]]]}[ck["cmp"]]
    body.append(["if", cond, [["if", scond, e2e.fail_stmts(t["fail"]), []]], []])
    for m in t["post"]:
        body += mut_stmts(m)
    return body + [["stop"]]


def test_sig(t, i):
    return f"check_t{i}(" + ",".join(["uint256"] * t["nargs"]) + ")"


def build(case):
    fns = [{"sig": "setUp()", "body": setup_stmts(case["setup"])}]
    for i, t in enumerate(case["tests"]):
        fns.append({"sig": test_sig(t, i), "body": test_body(t)})
    cj, _, _ = e2e.artifact("T", fns)
    return cj


UID_RE = re.compile(r"_[0-9a-f]{7}(?=_|$)")


def norm_name(n):
    return UID_RE.sub("_U", n)


def norm_result(tr, values=True):
    models = []
    for m in tr.models or []:
        items = []
        for k, v in (m.model or {}).items():
            nk = norm_name(k)
            items.append((nk, v.value if (values and nk.startswith("p_")) else None))
        models.append((bool(m.is_valid), tuple(sorted(items))))
    return {"exit": tr.exitcode, "num_models": tr.num_models, "paths": tuple(tr.num_paths) if tr.num_paths else None, "bounded": tr.num_bounded_loops, "models": sorted(models)}


class UidGen:
    """rebinds halmos' uid() in every module that imported it"""

    MODS = ["halmos.utils", "halmos.__main__", "halmos.calldata", "halmos.cheatcodes", "halmos.sevm"]

    def __init__(self, mode):
        self.mode = mode

    def __enter__(self):
        import importlib

        self.saved = []
        ctr = itertools.count(1)
        if self.mode == "asc":
            f = lambda: f"{next(ctr):07x}"  # noqa: E731
        elif self.mode == "desc":
            f = lambda: f"{0xFFFFFFF - next(ctr):07x}"  # noqa: E731
        else:
            return self
        for mn in self.MODS:
            mod = importlib.import_module(mn)
            if hasattr(mod, "uid"):
                self.saved.append((mod, mod.uid))
                mod.uid = f
        return self

    def __exit__(self, *a):
        for mod, f in self.saved:
            mod.uid = f


def run_list(cj, sigs, uid=None, others=None, **over):
    # the branching solver gets no time limit: with the default 1 ms budget the set of explored
    # (infeasible) paths depends on machine load, which is not what this property is about
    a = e2e.mk_args(solver_timeout_assertion=30.0, solver_timeout_branching=0, **over)
    with UidGen(uid):
        r = e2e.run(cj, args=a, funsigs=list(sigs), others=others, capture=False)
    out = []
    for tr in r.results:
        out.append((tr.name, tr))
    return out, r


def run_tests_case(case, acc=None):
    cj = build(case)
    sigs = [test_sig(t, i) for i, t in enumerate(case["tests"])]
    fails = []
    alone = {}
    try:
        for s in sigs:
            res, r = run_list(cj, [s])
            if len(res) != 1:
                return [(["no-result"], f"{s}: {r.warnings()[:3]}")]
            alone[s] = norm_result(res[0][1])
        perm = list(case["perm"])
        order1 = [sigs[k % len(sigs)] for k in perm]
        order1 = list(dict.fromkeys(order1)) + [s for s in sigs if s not in order1]
        rep = [order1[0], order1[-1], order1[0]] if len(order1) >= 2 else order1 * 2
        contexts = [("order", order1, None), ("reversed", list(reversed(order1)), None), ("repeated", rep, None), ("uid-asc", order1, "asc"), ("uid-desc", order1, "desc")]
        for tag, lst, uid in contexts:
            res, r = run_list(cj, lst, uid=uid)
            if len(res) != len(lst):
                fails.append((["result-count", tag], f"{len(res)} results for run list {lst}"))
                continue
            for pos, (name, tr) in enumerate(res):
                nr = norm_result(tr)
                if nr != alone[name]:
                    diff = {k: (alone[name][k], nr[k]) for k in nr if nr[k] != alone[name][k]}
                    fails.append((["depends-on-context", tag, "/".join(sorted(diff))], f"{name} at position {pos} of {lst}: alone vs in context: {str(diff)[:700]}"))
                    break
    except Exception as e:
        return [(["run-raise", type(e).__name__], repr(e)[:300])]
    if acc is not None:
        # non-trivial: some test mutates (post) a location that a later test of order1 checks
        def lk(loc):
            return tuple(loc[:3]) if loc[0] == "map" else tuple(loc[:2]) if loc[0] not in ("ts", "echo") else (loc[0],)

        nt = False
        idx = {s: i for i, s in enumerate(sigs)}
        for a_, b_ in itertools.combinations(order1, 2):
            ta, tb = case["tests"][idx[a_]], case["tests"][idx[b_]]
            if any(lk(m[:-1]) == lk(tb["check"]["loc"]) for m in ta["post"] + ta["pre"]):
                nt = True
        exits = sorted({v["exit"] for v in alone.values()})
        acc.case(case, nt, klass=["tests", f"n:{len(sigs)}", "exits:" + "/".join(map(str, exits))] + (["symbolic-setup"] if any(o[0].startswith("sym") for o in case["setup"]) else []),
                 sample={"setup": case["setup"], "tests": case["tests"], "alone": {k: (v["exit"], v["num_models"], v["paths"]) for k, v in alone.items()}})
    return fails


def run_inv_case(case, acc=None):
    fails = []
    try:
        cj, others = c15.build(case)
        a = {"invariant_depth": case["depth"]}
        i0, i1 = "invariant_i0()", "invariant_i1()"
        alone = {}
        for s in (i0, i1):
            res, r = run_list(cj, [s], others=others, **a)
            if len(res) != 1:
                return [(["no-result"], f"{s}: {r.warnings()[:3]}")]
            alone[s] = norm_result(res[0][1], values=False)
        for tag, lst in (("order", [i0, i1]), ("reversed", [i1, i0]), ("repeated", [i0, i1, i0])):
            res, r = run_list(cj, lst, others=others, **a)
            if len(res) != len(lst):
                fails.append((["result-count", tag], f"{len(res)} results for {lst}"))
                continue
            for pos, (name, tr) in enumerate(res):
                nr = norm_result(tr, values=False)
                cmp_keys = ["exit", "num_models", "paths", "bounded"]
                if any(nr[k] != alone[name][k] for k in cmp_keys):
                    diff = {k: (alone[name][k], nr[k]) for k in cmp_keys if nr[k] != alone[name][k]}
                    fails.append((["invariant-depends-on-context", tag, "/".join(sorted(diff))], f"{name} at position {pos} of {lst}: {diff}"))
                    break
    except Exception as e:
        return [(["run-raise", type(e).__name__], repr(e)[:300])]
    if acc is not None:
        acc.case(case, case["depth"] >= 1, klass=["inv", f"depth:{case['depth']}", "exits:" + "/".join(str(alone[s]["exit"]) for s in alone)])
    return fails


# ---------------------------------------------------------------- path-level: sibling isolation

PAT = [0x1111111111111111111111111111111111111111111111111111111111111111, 0x2222222222222222222222222222222222222222222222222222222222222222, 0x3333333333333333333333333333333333333333333333333333333333333333]


def fork_body(p):
    """pre; if (X ~ c) {A} else {B}; tail returning every shared location"""
    X = ["cd", 0] if not p["mask"] else ["op2", "AND", ["cd", 0], ["c", 0xFF]]
    pre = [["mstore", 0, ["c", PAT[0]]], ["mstore", 32, ["c", PAT[1]]], ["mstore", 64, ["cd", 1]], ["sstore", ["c", 0], ["c", 9]]]
    cond = ["op2", "EQ", X, ["c", p["c"]]]
    if p["neg"]:
        cond = ["op1", "ISZERO", cond]

    def arm(tag, writes, use_x):
        out = []
        for w in writes:
            v = ["c", w[1] + tag]
            if w[0] == "slot":
                out.append(["sstore", ["c", w[2]], v])
            elif w[0] == "mem":
                out.append(["mstore", 0x100 + 32 * w[2], v])
            elif w[0] == "tslot":
                out.append(["tstore", ["c", w[2]], v])
            elif w[0] == "call":
                out += [["mstore", 0x200, v], ["call", "CALL", ["c", c01.C1], ["c", 0], 0x200, 32, 0x240, 32, 0x260]]
        if use_x == "mload":
            out.append(["mstore", 0x140, ["mloadx", X]])
        elif use_x == "mstore":
            out.append(["mstorex", X, ["c", 0xABCD]])
        elif use_x == "sloadmem":
            out.append(["sstore", ["c", 3], ["mloadx", X]])
        elif use_x == "return":
            out.append(["returnx", X, 32])
        elif use_x == "cdcopy":
            out.append(["cdcopyx", X, 32, 32])
        return out

    A = arm(1, p["writes"], p["use_eq"])
    B = arm(2, p["writes"], p["use_ne"])
    if p.get("nested"):
        Y = ["cd", 2]
        B = [["if", ["op2", "EQ", Y, ["c", 3]], B, [["sstore", ["c", 1], ["c", 77]]] + arm(3, p["writes"][:1], p["use_ne"])]]
    then_, else_ = (B, A) if p["neg"] else (A, B)
    tail = [["mstore", 0x300, ["sload", ["c", 0]]], ["mstore", 0x320, ["sload", ["c", 1]]], ["mstore", 0x340, ["tload", ["c", 0]]], ["mstore", 0x360, ["mload", 0x100]], ["mstore", 0x380, ["mload", 0x140]],
            ["mstore", 0x3A0, ["mload", 0x240]], ["mstore", 0x3C0, ["mload", 0]], ["mstore", 0x3E0, ["mload", 32]], ["return", 0x300, 0x100]]
    return pre + [["if", cond, then_, else_]] + tail


def fork_case(p):
    callee = [["sstore", ["c", 5], ["cd", 0]], ["mstore", 0, ["op2", "ADD", ["cd", 0], ["c", 1]]], ["return", 0, 32]]
    return {"kind": "dsl", "bodies": [fork_body(p), callee, [["stop"]]], "seed": p["seed"] * 3 + 1}


def fork_st():
    w = st.one_of(
        st.builds(lambda v, k: ["slot", v, k], st.sampled_from([10, 20]), st.sampled_from([0, 1])),
        st.builds(lambda v, k: ["mem", v, k], st.sampled_from([10, 20]), st.sampled_from([0, 1, 2])),
        st.builds(lambda v: ["tslot", v, 0], st.sampled_from([10, 20])),
        st.builds(lambda v: ["call", v, 0], st.sampled_from([10, 20])),
    )
    use = st.sampled_from([None, "mload", "mstore", "sloadmem", "return", "cdcopy", None])
    return st.builds(lambda c, neg, mask, writes, ue, un, nested, seed: {"kind": "fork", "p": {"c": c, "neg": neg, "mask": mask, "writes": writes, "use_eq": ue, "use_ne": un, "nested": nested, "seed": seed}},
                     st.sampled_from([5, 32, 64, 7, 96]), st.booleans(), st.booleans(), st.lists(w, min_size=1, max_size=3), use, use, st.booleans(), st.integers(0, 1 << 20))


def run_fork_case(case, acc=None):
    cc = fork_case(case["p"])
    sub = Acc()
    fails = c01.run_case(cc, sub)
    if acc is not None:
        paths = next((int(k.split(":")[1].rstrip("+").split("-")[0]) for k in sub.hist if k.startswith("paths:")), 0)
        acc.case(case, paths >= 2, klass=["fork", "neg" if case["p"]["neg"] else "pos", "nested" if case["p"]["nested"] else "flat"] + ([f"concretise:{case['p']['use_ne']}"] if case["p"]["use_ne"] else []))
        for k, v in sub.extra.items():
            acc.extra["fork_" + k] = acc.extra.get("fork_" + k, 0) + v
        for k, v in sub.excluded.items():
            acc.exclude(k, v)
    return [(["sibling-path"] + list(b), d) for b, d in fails]


# ---------------------------------------------------------------- process stability under many failing paths

def stress_once(nsites, repeats):
    body = []
    for i in range(nsites):
        body.append(["if", ["op2", "EQ", e2e.arg(0), ["c", i]], e2e.panic_stmts(1), []])
    cj, _, _ = e2e.artifact("T", [{"sig": "check_a(uint256)", "body": body + [["stop"]]}])
    a = e2e.mk_args(solver_timeout_assertion=30.0)
    out = []
    for _ in range(repeats):
        r = e2e.run(cj, args=a, capture=False)  # nothing but halmos itself holds the Execs
        out.append((r.results[0].exitcode, r.results[0].num_models))
    return out


def run_stress_case(case, acc=None):
    """the same many-counterexample test repeatedly in one (forked) process: the process must
    survive and every repetition must give the same result"""
    from vfw.util import Hang, forked

    fails = []
    try:
        out = forked(lambda: stress_once(case["sites"], case["repeats"]), 600)
        if len(set(out)) != 1 or out[0] != (1, case["sites"]):
            fails.append((["repeated-run-differs"], f"{sorted(set(out))} expected {(1, case['sites'])}"))
    except Hang:
        # a time bound is never a verdict
        if acc is not None:
            acc.exclude("stress-run-exceeded-600s")
    except RuntimeError as e:
        if "child died" in str(e):
            fails.append((["process-died"], f"the process running check_a {case['repeats']} times with {case['sites']} counterexamples each died without a result"))
        else:
            fails.append((["run-raise"], str(e)[:300]))
    if acc is not None:
        acc.case(case, True, klass=["stress", f"sites:{case['sites']}"])
    return fails


# ---------------------------------------------------------------- the cyclic collector running on solver threads

def gcthread_once(cases, on_solver_thread):
    """verify the contracts of `cases` (C03 grammar) back to back in this process.  With
    on_solver_thread the automatic collector is off and a full collection runs on the solver thread at
    the start of the first assertion query of every test: the Execs, Paths and z3 Solvers that the
    earlier tests left in reference cycles are then released there while the main thread goes on
    using z3."""
    import gc

    import halmos.__main__ as M
    from props import c03_pass as c03

    orig = M.solve_end_to_end

    seen = []

    def collecting(path_ctx):
        # first query of a test: everything the previous tests left behind is released here
        if not seen or seen[-1] is not path_ctx.solving_ctx:
            seen.append(path_ctx.solving_ctx)
            gc.collect()
        return orig(path_ctx)

    if on_solver_thread:
        gc.disable()
        M.solve_end_to_end = collecting
    try:
        out = []
        for case in cases:
            cj, _, _ = c03.build(case)
            a = e2e.mk_args(solver_command=e2e.YICES if case["solver"] == "yices" else e2e.Z3, storage_layout=case["layout"],
                            panic_error_codes=c03.parse_codes(case["codes"]), solver_timeout_assertion=3.0)
            r = e2e.run(cj, args=a, capture=False)  # nothing but halmos itself holds the Execs
            out.append(sorted((x.name, x.exitcode) for x in r.results))
        return out
    finally:
        M.solve_end_to_end = orig
        if on_solver_thread:
            gc.enable()


def run_gcthread_case(case, acc=None):
    from vfw.util import Hang, forked

    fails = []
    runs = {}
    for mode in (False, True):
        try:
            runs[mode] = forked(lambda m=mode: gcthread_once(case["cases"], m), 600)
        except Hang:
            if acc is not None:
                acc.exclude("gcthread-run-exceeded-600s")
        except RuntimeError as e:
            if "child died" in str(e):
                what = "with the cyclic collector running on the solver threads" if mode else "(default collector schedule)"
                fails.append((["process-died-gc" if mode else "process-died"], f"the process verifying {len(case['cases'])} contracts back to back {what} died without a result"))
            else:
                fails.append((["run-raise"], str(e)[:300]))
    queries = 0
    if len(runs) == 2:
        for i, (r0, r1) in enumerate(zip(runs[False], runs[True])):
            d0, d1 = dict(r0), dict(r1)
            if set(d0) != set(d1):
                fails.append((["gc-schedule-changes-result", "tests"], f"contract {i}: {sorted(d0)} vs {sorted(d1)}"))
                continue
            for name in d0:
                if d0[name] in (0, 1) and d1[name] in (0, 1) and d0[name] != d1[name]:
                    fails.append((["gc-schedule-changes-result", "verdict"], f"contract {i} {name}: exit code {d0[name]} normally, {d1[name]} with the collector on the solver threads"))
            if i >= 1:
                queries += sum(1 for v in d1.values() if v == 1)
    if acc is not None:
        acc.case(case, queries >= 1, klass=["gcthread", f"contracts:{len(case['cases'])}"])
    return fails


# ---------------------------------------------------------------- generators for the test-level part

def loc_st():
    return st.one_of(
        st.builds(lambda s: ["slot", s], st.sampled_from(SLOTS)),
        st.builds(lambda s: ["slot", s], st.sampled_from(SLOTS)),
        st.builds(lambda b, k: ["map", b, k], st.sampled_from([0, 1]), st.sampled_from([1, 2])),
        st.builds(lambda s: ["tslot", s], st.sampled_from([0, 1])),
        st.builds(lambda a: ["bal", a], st.sampled_from([0, 1])),
        st.just(["ts"]),
        st.builds(lambda a: ["codesize", a], st.sampled_from([0, 1])),
        st.just(["echo"]),
        st.builds(lambda s_: ["sha", s_], st.sampled_from(SLOTS)),
    )


def mut_st():
    # (a hash is read-only: as a mutation target it stands for the slot it hashes)
    return st.builds(lambda loc, v: (["slot", loc[1]] if loc[0] == "sha" else loc) + [v], loc_st(), st.sampled_from(VALS + [7, "arg"]))


def test_st():
    return st.builds(
        lambda nargs, pin, pre, loc, cmp_, c, post, fail: {"nargs": nargs, "pin": pin, "pre": pre, "check": {"loc": loc, "cmp": cmp_, "c": c}, "post": post, "fail": fail},
        st.sampled_from([1, 2]), st.tuples(st.sampled_from([3, 1 << 200, 0]), st.sampled_from([4, 9])).map(list), st.lists(mut_st(), max_size=1), loc_st(), st.sampled_from(["eq", "eq", "ne", "lt"]), st.sampled_from(VALS),
        st.lists(mut_st(), min_size=1, max_size=3), st.sampled_from(["panic", "panic", "failflag"]),
    )


def setup_st():
    op = st.one_of(
        st.builds(lambda s, v: ["sstore", s, v], st.sampled_from(SLOTS), st.sampled_from(VALS)),
        st.builds(lambda s, b: ["symstore", s, b], st.sampled_from(SLOTS), st.sampled_from([2, 8, 100])),
        st.builds(lambda b, k, v: ["mapstore", b, k, v], st.sampled_from([0, 1]), st.sampled_from([1, 2]), st.sampled_from(VALS)),
        st.builds(lambda b, v: ["symmapstore", b, 0, v], st.sampled_from([0, 1]), st.sampled_from([1, 7])),
        st.builds(lambda a, v: ["deal", a, v], st.sampled_from([0, 1]), st.sampled_from(VALS)),
        st.builds(lambda t: ["warp", t], st.sampled_from([7, 1000])),
    )
    return st.lists(op, min_size=1, max_size=5)


def tests_case_st():
    return st.builds(lambda setup, tests, perm: {"kind": "tests", "setup": setup, "tests": tests, "perm": perm}, setup_st(), st.lists(test_st(), min_size=3, max_size=5), st.lists(st.integers(0, 4), min_size=2, max_size=5))


def inv_case_st():
    def two(case):
        invs = case["invariants"]
        if len(invs) < 2:
            invs = invs + [dict(invs[0], c=invs[0]["c"] + 1 if invs[0]["cmp"] != "eq" else invs[0]["c"])]
        out = dict(case, kind="inv", invariants=invs[:2], depth=max(1, min(case["depth"], 2)), meta=None)
        if case["seed"] % 3 == 0:
            # the first invariant gives up early (--width 1 from its own annotation): what it leaves in
            # the shared frontier cache must not change the other invariant's result
            out["inv_devdoc"] = {"0": "--width 1"}
        return out

    return st.one_of(c15.case_st(), c15.confluent_st(), c15.permute_st(), c15.split_st()).map(two)


def gcthread_st():
    from props import c03_pass as c03

    return st.builds(lambda cases: {"kind": "gcthread", "cases": cases}, st.lists(c03.case_st(), min_size=3, max_size=6))


def shards(tier):
    n = 14 if tier == "quick" else 200
    return [{"mode": "tests", "n": n} for _ in range(9)] + [{"mode": "inv", "n": n} for _ in range(3)] + [{"mode": "fork", "n": 12 * n} for _ in range(2)] + [{"mode": "stress", "n": 6 if tier == "quick" else 60} for _ in range(2)] + [{"mode": "gcthread", "n": 8 if tier == "quick" else 150} for _ in range(2)]


def run_case(case, acc=None):
    k = case.get("kind")
    if k == "tests":
        return run_tests_case(case, acc)
    if k == "inv":
        return run_inv_case(case, acc)
    if k == "stress":
        return run_stress_case(case, acc)
    if k == "gcthread":
        return run_gcthread_case(case, acc)
    return run_fork_case(case, acc)


def run_shard(spec, seed, tier):
    acc = Acc()

    def body(case):
        for b, d in run_case(case, acc):
            acc.fail(b, case, d)

    stress_st = st.builds(lambda s, r, k: {"kind": "stress", "sites": s, "repeats": r, "k": k}, st.sampled_from([40, 25, 60]), st.sampled_from([12, 20]), st.integers(0, 1 << 20))
    strat = {"tests": tests_case_st, "inv": inv_case_st, "fork": fork_st, "stress": lambda: stress_st, "gcthread": gcthread_st}[spec["mode"]]()
    run_cases(strat, body, spec["n"], seed)
    return acc


def replay(case):
    return [{"bucket": b, "detail": d} for b, d in run_case(case)]
