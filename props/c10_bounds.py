"""C10 — incomplete exploration is always reported.

Generated test contracts whose functions contain counted loops with (a) a concrete trip count
c in 0..12, (b) a symbolic trip count (argument masked to 0..7), with a failure planted behind
iteration t; long straight-line code (for --depth); fans of symbolic branches (for --width);
unsupported opcodes at the top level and inside a sub-context; the loop placed in setUp, in a
regular test and in an invariant *target* function.  Configurations --loop in {1,2,3,5}, --width in
{0,1,2,5}, --depth in {0, small, large}.  Each configuration is run twice in one process and with
two contracts that share the function signature (warnings must not be de-duplicated away).
Oracle: ground truth by brute force on the reference EVM over the small argument domain.  If the
failure is reachable but the verdict is PASS, the captured log of *that run* must contain the
matching loop-bound / --width / --depth warning for that test (or the run reports an error);
loops with a concrete condition must run all c iterations for every --loop (the failure planted
after the loop must be found and no bound may be reported).
"""

from __future__ import annotations

import random

from vfw import asm, cheats, e2e, gen
from vfw.hyp import run_cases, st
from vfw.runner import Acc

PROPERTY = "C10"
LEVEL = "exploration"
RULE = (
    "case = (program shape: sym-loop/conc-loop/width-fan/depth-line/unsupported/setUp-loop/invariant-target-loop, its "
    "parameters, configuration --loop/--width/--depth, repeated twice in one process and under a second contract with the "
    "same signature). Non-trivial = the bound actually bites (ground truth has a behaviour beyond the bound); distinct by content."
)
ASSUMPTIONS = [
    "ground truth = brute force of the planted failure over the argument domain 0..7 (trip counts are masked to 3 bits)",
    "a non-PASS verdict or a run that reports an error counts as 'reported'",
]
WATCHDOG_S = {"quick": 2400, "thorough": 10800}

MANIFEST = {
    "technique": "generated loop/branch/length programs with brute-forced ground truth run end to end under bound configurations; the check is on silence: a PASS that misses a reachable failure must carry the matching warning in the log of that very run (repeated runs and same-signature contracts included)",
    "text": "Test contracts with concrete and symbolic trip-count loops (failure planted behind iteration t), branch fans, long straight-line code and unsupported opcodes (top level and nested), with the loop placed in setUp, a regular test or an invariant target function, are run through run_contract under --loop/--width/--depth settings, twice per process and again under a second contract with the same signature; ground truth comes from brute force on the reference EVM; whenever a reachable failure is not reported the run must contain the loop-bound, --width or --depth warning for that test, and concrete loops must never be cut.",
    "note": "trusts the brute-forced ground truth and the log capture on the 'halmos' logger",
}

CTR = 0x7C0


def sym_loop_body(t, kind="panic", mask=7):
    """n = arg0 & mask; for i in 0..n-1: if i == t: fail"""
    return [
        ["mstore", CTR, ["c", 0]],
        ["loop", ["op2", "AND", e2e.arg(0), ["c", mask]], mask, [
            ["if", ["op2", "EQ", ["mload", CTR], ["c", t]], e2e.fail_stmts(kind), []],
            ["mstore", CTR, ["op2", "ADD", ["mload", CTR], ["c", 1]]],
        ]],
        ["stop"],
    ]


def conc_loop_body(c):
    """s = 0; repeat c times: s += 1 (concrete loop condition); if s == c and arg0 == 5: fail"""
    items = [("PUSH", 0), ("PUSH", CTR), "MSTORE", ("PUSH", c), ("LABEL", "top"), "DUP1", "ISZERO", ("PUSHL", "end"), "JUMPI",
             ("PUSH", 1), ("PUSH", CTR), "MLOAD", "ADD", ("PUSH", CTR), "MSTORE", ("PUSH", 1), "SWAP1", "SUB", ("PUSHL", "top"), "JUMP", ("LABEL", "end"), "POP"]
    raw = asm.assemble(items)
    # labels are absolute: emit the loop at the start of the function body through a relocatable form
    return None, items


def width_body(k, kind="panic"):
    """k sequential symbolic branches (2^k paths); the failure needs every bit set"""
    body = [["mstore", CTR, ["c", 0]]]
    for i in range(k):
        body.append(["if", ["op2", "AND", e2e.arg(0), ["c", 1 << i]], [["mstore", CTR, ["op2", "ADD", ["mload", CTR], ["c", 1]]]], []])
    body.append(["if", ["op2", "EQ", ["mload", CTR], ["c", k]], e2e.fail_stmts(kind), []])
    return body + [["stop"]]


def depth_body(n, kind="panic"):
    body = [["mstore", CTR, ["c", 0]]]
    for _ in range(n):
        body.append(["mstore", CTR, ["op2", "ADD", ["mload", CTR], ["c", 1]]])
    body.append(["if", ["op2", "EQ", e2e.arg(0), ["c", 77]], e2e.fail_stmts(kind), []])
    return body + [["stop"]]


def build(case, name="T"):
    shape = case["shape"]
    p = case["p"]
    fns = []
    others = {}
    if shape == "symloop":
        fns.append({"sig": "check_l(uint256)", "body": sym_loop_body(p["t"], p["kind"])})
    elif shape == "concloop":
        c = gen.Compiler()
        body = [["mstore", CTR, ["c", 0]], ["loop", ["c", p["c"]], 12, [["mstore", CTR, ["op2", "ADD", ["mload", CTR], ["c", 1]]]]],
                ["if", ["op2", "AND", ["op2", "EQ", ["mload", CTR], ["c", p["c"]]], ["op2", "EQ", e2e.arg(0), ["c", 5]]], e2e.fail_stmts("panic"), []], ["stop"]]
        fns.append({"sig": "check_l(uint256)", "body": body})
    elif shape == "width":
        fns.append({"sig": "check_l(uint256)", "body": width_body(p["k"], p["kind"])})
    elif shape == "depth":
        fns.append({"sig": "check_l(uint256)", "body": depth_body(p["n"], p["kind"])})
    elif shape == "unsupported":
        inner = [["raw", "21"], ["stop"]] if not p["nested"] else [["create", "CREATE", ["c", 0], "2100", ["c", 0], 0x3E0], ["stop"]]
        fns.append({"sig": "check_l(uint256)", "body": [["if", ["op2", "EQ", e2e.arg(0), ["c", 3]], inner, []], ["stop"]]})
    elif shape == "setuploop":
        # setUp draws a symbolic n (svm.createUint256) and loops n & 7 times
        data = bytes.fromhex("bc7beefc") + (32).to_bytes(32, "big") + (1).to_bytes(32, "big") + b"n" + bytes(31)
        setup = [["memw", 0x500, data.hex()], ["xcall", 0xF3993A62377BCD56AE39D773740A5390411E8BC9, 0x500, len(data), 0x600, 32],
                 ["mstore", CTR, ["c", 0]], ["loop", ["op2", "AND", ["mload", 0x600], ["c", 7]], 7, [["mstore", CTR, ["op2", "ADD", ["mload", CTR], ["c", 1]]]]],
                 ["sstore", ["c", 0], ["mload", CTR]]]
        fns.append({"sig": "setUp()", "body": setup})
        fns.append({"sig": "check_l(uint256)", "body": [["if", ["op2", "EQ", ["sload", ["c", 0]], ["c", p["t"]]], e2e.fail_stmts("panic"), []], ["stop"]]})
    elif shape == "invloop":
        # target contract: f(uint256 x): loop x&7 times, at iteration t set slot0 = 1 ; invariant: slot0 == 0
        tbody = [["mstore", CTR, ["c", 0]], ["loop", ["op2", "AND", e2e.arg(0), ["c", 7]], 7, [
            ["if", ["op2", "EQ", ["mload", CTR], ["c", p["t"]]], [["sstore", ["c", 0], ["c", 1]]], []],
            ["mstore", CTR, ["op2", "ADD", ["mload", CTR], ["c", 1]]]]], ["stop"]]
        tfns = [{"sig": "f(uint256)", "body": tbody}, {"sig": "bad()", "body": [["mstore", 0, ["sload", ["c", 0]]], ["return", 0, 32]], "mutability": "view", "outputs": [{"name": "", "type": "uint256"}]}]
        tcj, tcreation, trt = e2e.artifact("Target", tfns)
        others["Target"] = tcj
        setup = [["create", "CREATE", ["c", 0], tcreation.hex(), ["c", 0], 0x3E0], ["sstore", ["c", 1], ["mload", 0x3E0]]]
        inv = [["memw", 0x500, e2e.selector("bad()")], ["call", "STATICCALL", ["sload", ["c", 1]], ["c", 0], 0x500, 4, 0x520, 32, 0x540],
               ["if", ["mload", 0x520], e2e.fail_stmts("panic"), []], ["stop"]]
        fns.append({"sig": "setUp()", "body": setup})
        fns.append({"sig": "invariant_ok()", "body": inv})
    elif shape == "invbodyloop":
        # targets: set(uint256 x) stores x & 7, set5() stores 5; the invariant itself loops slot0 times
        # (symbolic on the state after set(x), concrete on the other states) and fails at iteration t
        tfns = [{"sig": "set(uint256)", "body": [["sstore", ["c", 0], ["op2", "AND", e2e.arg(0), ["c", 7]]], ["stop"]]},
                {"sig": "set5()", "body": [["sstore", ["c", 0], ["c", p["five"]]], ["stop"]]},
                {"sig": "get()", "body": [["mstore", 0, ["sload", ["c", 0]]], ["return", 0, 32]], "mutability": "view", "outputs": [{"name": "", "type": "uint256"}]}]
        if p.get("swap"):
            tfns[0], tfns[1] = tfns[1], tfns[0]
        tcj, tcreation, trt = e2e.artifact("Target", tfns)
        others["Target"] = tcj
        setup = [["create", "CREATE", ["c", 0], tcreation.hex(), ["c", 0], 0x3E0], ["sstore", ["c", 1], ["mload", 0x3E0]]]
        inv = [["memw", 0x500, e2e.selector("get()")], ["call", "STATICCALL", ["sload", ["c", 1]], ["c", 0], 0x500, 4, 0x520, 32, 0x540],
               ["mstore", CTR, ["c", 0]],
               ["loop", ["mload", 0x520], 7, [["if", ["op2", "EQ", ["mload", CTR], ["c", p["t"]]], e2e.fail_stmts("panic"), []], ["mstore", CTR, ["op2", "ADD", ["mload", CTR], ["c", 1]]]]],
               ["stop"]]
        fns.append({"sig": "setUp()", "body": setup})
        fns.append({"sig": "invariant_ok()", "body": inv})
    cj, _, _ = e2e.artifact(name, fns)
    return cj, others


def ground_truth(case):
    """is the planted failure reachable (brute force over arg0 in 0..255 on the reference EVM)"""
    shape, p = case["shape"], case["p"]
    if shape == "symloop":
        return p["t"] < 7 or p["t"] <= 6  # n ranges 0..7: iteration t runs iff n > t
    if shape == "concloop":
        return True
    if shape in ("width", "depth"):
        return True
    if shape == "unsupported":
        return None
    if shape == "setuploop":
        return p["t"] <= 7
    if shape == "invloop":
        return p["t"] <= 6
    if shape == "invbodyloop":
        return p["t"] <= 6  # set(x) can store up to 7
    return None


def brute_force(case, cj):
    """confirm the ground truth on the reference EVM for the shapes with a plain check function"""
    shape = case["shape"]
    if shape not in ("symloop", "concloop", "width", "depth"):
        return None
    sig = "check_l(uint256)"
    dom = list(range(0, 40)) + [77, 255]
    for x in dom:
        ch = cheats.Cheats()
        w, evm = e2e.ref_setup(cj, cheats=ch)
        ch.test_failed = False
        res = e2e.call(evm, bytes.fromhex(e2e.selector(sig)) + x.to_bytes(32, "big"))
        if ch.test_failed or e2e.failed(res):
            return True
    return False


def warned(r, sig, kinds):
    ws = r.warnings()
    for w in ws:
        if "loop" in kinds and "loop unrolling bound" in w:
            return True
        if "width" in kinds and "--width" in w:
            return True
        if "depth" in kinds and "--depth" in w:
            return True
    return False


def run_case(case, acc=None):
    cfg = case["cfg"]
    a = e2e.mk_args(loop=cfg["loop"], width=cfg["width"], depth=cfg["depth"], invariant_depth=1, solver_timeout_assertion=20.0)
    cj, others = build(case, "T")
    cj2, others2 = build(case, "U")
    gt = ground_truth(case)
    bf = brute_force(case, cj)
    fails = []
    if bf is not None and gt is not None and bf != gt:
        return [(["harness", "ground-truth"], f"brute force says {bf}, formula says {gt} for {case}")]
    sig = "invariant_ok()" if case["shape"] in ("invloop", "invbodyloop") else "check_l(uint256)"
    runs = []
    try:
        for cjx, ox, nm in ((cj, others, "T"), (cj, others, "T"), (cj2, others2, "U")):
            runs.append(e2e.run(cjx, name=nm, args=a, others=ox, funsigs=[sig]))
    except Exception as e:
        return [(["run-raise", type(e).__name__], repr(e)[:300])]
    bites = False
    for i, r in enumerate(runs):
        tag = ["first", "repeat", "same-signature-other-contract"][i]
        res = r.by_sig().get(sig)
        if res is None:
            # setUp failed / no result: must have been reported as an error
            if not any(l == "ERROR" for l, _ in r.logs.records):
                fails.append((["silent-no-result", case["shape"], tag], f"{case}"))
            continue
        flagged = bool(res.num_bounded_loops) or warned(r, sig, ("loop", "width", "depth"))
        if case["shape"] == "concloop":
            if res.exitcode != 1 and not warned(r, sig, ("width", "depth")):
                fails.append((["concrete-loop-cut", tag], f"exit {res.exitcode} (expected the failure after the loop to be found) c={case['p']['c']} cfg={cfg}"))
            if cfg["depth"] == 0 and cfg["width"] == 0 and (res.num_bounded_loops or warned(r, sig, ("loop",))):
                fails.append((["concrete-loop-reported-as-bounded", tag], f"c={case['p']['c']} cfg={cfg}"))
            continue
        if case["shape"] == "unsupported":
            if res.exitcode == 0 and not flagged:
                fails.append((["unsupported-silent", "nested" if case["p"]["nested"] else "top", tag], f"PASS without any warning cfg={cfg}"))
            continue
        if gt and res.exitcode == 0:
            bites = True
            kinds = ("loop",) if case["shape"] in ("symloop", "setuploop", "invloop", "invbodyloop") else (("width",) if case["shape"] == "width" else ("depth",))
            # the warning must be of a kind that explains the miss, in this very run
            ok = warned(r, sig, kinds + ("width", "depth")) or (bool(res.num_bounded_loops) and "loop" in kinds)
            if not ok:
                fails.append((["silent-incomplete", case["shape"], tag], f"PASS, failure reachable (shape {case['shape']} p={case['p']}), no matching warning in this run; cfg={cfg}; warnings={r.warnings()[:2]}"))
    if acc is not None:
        acc.case(case, bites or case["shape"] in ("concloop", "unsupported"), klass=[case["shape"], "bites" if bites else "no-bite", f"loop:{cfg['loop']}", f"width:{cfg['width']}", f"depth:{cfg['depth']}"], sample=case)
    return fails


def case_st():
    kind = st.sampled_from(["panic", "failflag"])
    shape = st.one_of(
        st.builds(lambda t, k: {"shape": "symloop", "p": {"t": t, "kind": k}}, st.integers(0, 6), kind),
        st.builds(lambda t, k: {"shape": "symloop", "p": {"t": t, "kind": k}}, st.integers(0, 6), kind),
        st.builds(lambda c: {"shape": "concloop", "p": {"c": c}}, st.integers(0, 12)),
        st.builds(lambda k, kd: {"shape": "width", "p": {"k": k, "kind": kd}}, st.integers(1, 4), kind),
        st.builds(lambda n, kd: {"shape": "depth", "p": {"n": n, "kind": kd}}, st.sampled_from([5, 40, 120]), kind),
        st.builds(lambda n: {"shape": "unsupported", "p": {"nested": n}}, st.booleans()),
        st.builds(lambda t: {"shape": "setuploop", "p": {"t": t}}, st.integers(0, 7)),
        st.builds(lambda t: {"shape": "invloop", "p": {"t": t}}, st.integers(0, 6)),
        st.builds(lambda t: {"shape": "invloop", "p": {"t": t}}, st.integers(0, 6)),
        st.builds(lambda t, f, sw: {"shape": "invbodyloop", "p": {"t": t, "five": f, "swap": sw}}, st.integers(1, 6), st.sampled_from([0, 1, 5]), st.booleans()),
        st.builds(lambda t, f, sw: {"shape": "invbodyloop", "p": {"t": t, "five": f, "swap": sw}}, st.integers(1, 6), st.sampled_from([0, 1, 5]), st.booleans()),
    )
    cfg = st.builds(lambda l, w, d: {"loop": l, "width": w, "depth": d}, st.sampled_from([1, 2, 3, 5]), st.sampled_from([0, 0, 0, 1, 2, 5]), st.sampled_from([0, 0, 0, 60, 400, 100000]))
    return st.builds(lambda s, c: dict(s, cfg=c), shape, cfg)


def shards(tier):
    n = 24 if tier == "quick" else 400
    return [{"n": n} for _ in range(16)]


def run_shard(spec, seed, tier):
    acc = Acc()

    def body(case):
        for b, d in run_case(case, acc):
            acc.fail(b, case, d)

    run_cases(case_st(), body, spec["n"], seed)
    return acc


def replay(case):
    return [{"bucket": b, "detail": d} for b, d in run_case(case)]
