"""C19 — bytecode decoding and jump-destination validity follow the EVM.

Generators
  (a) exhaustive: every string of length <= L over the 9-symbol alphabet
      {STOP, ADD, JUMP, JUMPI, JUMPDEST, PUSH0, PUSH1, PUSH2, PUSH32} (one representative per
      decoding class) x every (a,b) split into concrete-prefix / symbolic-middle / concrete-suffix,
      in two representations (chunked ByteVec and a single z3 Concat term);
  (b) seeded random byte strings up to 4 KiB with PUSH-heavy tails and random splits;
  (d) counter loops whose head is the JUMPDEST at pc 0 (taken JUMP / JUMPI to destination 0, concrete
      and calldata-dependent trip counts), checked path by path against the reference EVM;
  (c) jump programs `PUSH2 dest; JUMP` / `PUSH1 c; PUSH2 dest; JUMPI` in front of every
      alphabet string, for every dest in range, executed by SEVM.run.
Oracle: a linear-scan reference decoder and a 9-opcode concrete interpreter written here.
"""

from __future__ import annotations

import itertools
import random

import z3

from vfw import symeval
from vfw.runner import Acc

PROPERTY = "C19"
LEVEL = "exploration"
RULE = (
    "cases = (byte string, split (a,b) of a symbolic region, representation); exhaustive over all strings of "
    "length<=L (quick L=5, thorough L=6) on a 9-opcode alphabet preserving every decoding class x all splits, plus "
    "seeded random strings <=4KiB, plus jump programs for every destination run through SEVM.run. "
    "Non-trivial = the string contains a PUSH whose data holds 0x5b, or a PUSH straddling the end of code or a "
    "split point; distinct by (string, split, representation, mode)."
)
ASSUMPTIONS = [
    "jump destinations at or after the first symbolic opcode are not decidable; the oracle requires none of them to be reported",
    "decode_instruction on a symbolic opcode may raise NotConcreteError (documented: symbolic opcodes unsupported)",
]
WATCHDOG_S = {"quick": 2400, "thorough": 10800}

ALPHA = [0x00, 0x01, 0x56, 0x57, 0x5B, 0x5F, 0x60, 0x61, 0x7F]


def ilen(op):
    return 1 + (op - 0x5F if 0x60 <= op <= 0x7F else 0)


def ref_scan(code: bytes, a: int, b: int):
    """boundaries of the concretely decodable prefix, jumpdests among them"""
    n = len(code)
    pc = 0
    bounds, jds = [], set()
    while pc < n:
        if a <= pc < b:
            break
        op = code[pc]
        bounds.append(pc)
        if op == 0x5B:
            jds.add(pc)
        pc += ilen(op)
    return bounds, jds


def nontrivial(code: bytes, a: int, b: int) -> bool:
    n = len(code)
    pc = 0
    while pc < n:
        if a <= pc < b:
            return False
        op = code[pc]
        L = ilen(op)
        if L > 1:
            data = code[pc + 1 : pc + L]
            if 0x5B in data:
                return True
            if pc + L > n:
                return True
            if a < b and pc < a < pc + L:
                return True
            if a < b and pc < b < pc + L:
                return True
        pc += L
    return False


def build_contract(code: bytes, a: int, b: int, rep: str):
    from halmos.bytevec import ByteVec
    from halmos.sevm import Contract

    if a >= b:
        if rep == "expr" and code:
            return Contract(z3.BitVecVal(int.from_bytes(code, "big"), 8 * len(code)))
        return Contract(code)
    s = z3.BitVec("s", 8 * (b - a))
    if rep == "chunks":
        bv = ByteVec()
        if a:
            bv.append(code[:a])
        bv.append(s)
        if code[b:]:
            bv.append(code[b:])
        return Contract(bv)
    parts = []
    if a:
        parts.append(z3.BitVecVal(int.from_bytes(code[:a], "big"), 8 * a))
    parts.append(s)
    if code[b:]:
        parts.append(z3.BitVecVal(int.from_bytes(code[b:], "big"), 8 * (len(code) - b)))
    return Contract(parts[0] if len(parts) == 1 else z3.Concat(*parts))


def _val(x, env):
    """byte/word produced by halmos -> int"""
    if isinstance(x, int):
        return x
    if hasattr(x, "as_z3"):
        if x.is_concrete:
            return int(x.value)
        x = x.as_z3()
    if z3.is_bv_value(x):
        return x.as_long()
    return symeval.evaluate(x, env)


def check_contract(code: bytes, a: int, b: int, rep: str, light: bool = False):
    """returns list of (bucket, detail)"""
    from halmos.exceptions import NotConcreteError

    fails = []
    n = len(code)
    env = symeval.Env({"s": int.from_bytes(code[a:b], "big")} if a < b else {})
    try:
        c = build_contract(code, a, b, rep)
    except Exception as e:  # construction must not fail
        return [(["construct", type(e).__name__], repr(e))]
    bounds, jds = ref_scan(code, a, b)
    try:
        got = set(c.valid_jumpdests())
    except Exception as e:
        return [(["jumpdests", "raise", type(e).__name__], repr(e))]
    if got != jds:
        kind = "spurious" if got - jds else "missing"
        fails.append((["jumpdests", kind], f"got {sorted(got)} expected {sorted(jds)}"))
    if len(c) != n:
        fails.append((["len"], f"{len(c)} != {n}"))
    # instruction decoding at every decodable boundary, in forward order and again (cache)
    for rnd in (0, 1):
        for pc in bounds:
            op = code[pc]
            L = ilen(op)
            try:
                insn = c.decode_instruction(pc)
            except Exception as e:
                fails.append((["decode", "raise", type(e).__name__], f"pc={pc} {e!r}"))
                continue
            if insn.opcode != op or insn.next_pc != pc + L or insn.pc != pc:
                fails.append((["decode", "opcode/next_pc"], f"pc={pc} got op={insn.opcode} next={insn.next_pc}"))
                continue
            if L > 1:
                raw = code[pc + 1 : pc + L]
                exp = int.from_bytes(raw + b"\0" * (L - 1 - len(raw)), "big")
                try:
                    v = _val(insn.operand, env)
                except Exception as e:
                    fails.append((["decode", "operand-eval", type(e).__name__], f"pc={pc} {e!r}"))
                    continue
                if v != exp:
                    fails.append((["decode", "operand"], f"pc={pc} got {v:#x} expected {exp:#x}"))
                if getattr(insn.operand, "size", 256) != 256:
                    fails.append((["decode", "operand-width"], f"pc={pc} size={insn.operand.size}"))
            elif insn.operand is not None:
                fails.append((["decode", "operand-not-none"], f"pc={pc}"))
    # beyond the end: implicit STOP
    for pc in (n, n + 1, n + 33):
        try:
            insn = c.decode_instruction(pc)
            if insn.opcode != 0:
                fails.append((["decode", "beyond-end"], f"pc={pc} op={insn.opcode}"))
        except Exception as e:
            fails.append((["decode", "beyond-end-raise", type(e).__name__], f"pc={pc} {e!r}"))
    # symbolic opcode: either NotConcreteError, never a concrete instruction
    if a < b:
        bset = set(bounds)
        # first undecodable boundary
        pc = 0
        while pc < n and not (a <= pc < b):
            pc += ilen(code[pc])
        if pc < n:
            try:
                insn = c.decode_instruction(pc)
                fails.append((["decode", "symbolic-opcode-decoded"], f"pc={pc} -> {insn!r}"))
            except NotConcreteError:
                pass
            except Exception as e:
                fails.append((["decode", "symbolic-opcode-raise", type(e).__name__], f"pc={pc} {e!r}"))
    # byte reads
    for i in range(n + 2):
        try:
            v = _val(c[i], env)
        except Exception as e:
            fails.append((["getitem", "raise", type(e).__name__], f"i={i} {e!r}"))
            continue
        exp = code[i] if i < n else 0
        if v != exp:
            fails.append((["getitem"], f"i={i} got {v} expected {exp}"))
    # slices (reads as zero past the end)
    fl = a if a < b else n  # length of the concrete prefix (fast-path boundary)
    pairs = set()
    for st in {0, max(0, fl - 1), fl}:
        for stop in {fl - 1, fl, fl + 1, n, n + 1, st + 33, st}:
            if stop >= st:
                pairs.add((st, stop - st))
    if not light:
        for st in {1, b, max(0, n - 1), n, n + 1}:
            for size in (0, 1, 2, 32, 33, max(0, n - st), max(0, n - st) + 1):
                pairs.add((st, size))
    for st, size in sorted(pairs):
        if True:
            exp = code[st : st + size]
            exp = exp + b"\0" * (size - len(exp))
            try:
                sl = c.slice(st, size)
                if len(sl) != size:
                    fails.append((["slice", "len"], f"start={st} size={size} len={len(sl)}"))
                    continue
                if size:
                    u = sl.unwrap()
                    v = u if isinstance(u, bytes) else int(_val(u, env)).to_bytes(size, "big")
                else:
                    v = b""
            except Exception as e:
                fails.append((["slice", "raise", type(e).__name__], f"start={st} size={size} {e!r}"))
                continue
            if v != exp:
                fails.append((["slice"], f"start={st} size={size} got {v.hex()} expected {exp.hex()}"))
    return fails


# ---------------------------------------------------------------- jump programs (mode c)

def ref_run(code: bytes, max_steps=300, cd: bytes = b""):
    """concrete interpreter for the 9-opcode alphabet (+PUSHn). returns (status, stack)"""
    _, jds = ref_scan(code, 0, 0)
    pc, st, steps = 0, [], 0
    n = len(code)
    M = (1 << 256) - 1
    while True:
        steps += 1
        if steps > max_steps:
            return ("loop", None)
        op = code[pc] if pc < n else 0
        if op == 0x00:
            return ("stop", st)
        if op == 0x01:
            if len(st) < 2:
                return ("StackUnderflowError", None)
            x = st.pop()
            y = st.pop()
            st.append((x + y) & M)
            pc += 1
        elif op == 0x56:
            if len(st) < 1:
                return ("StackUnderflowError", None)
            d = st.pop()
            if d not in jds:
                return ("InvalidJumpDestError", None)
            pc = d + 1
        elif op == 0x57:
            if len(st) < 2:
                return ("StackUnderflowError", None)
            d = st.pop()
            cnd = st.pop()
            if cnd:
                if d not in jds:
                    return ("InvalidJumpDestError", None)
                pc = d + 1
            else:
                pc += 1
        elif op == 0x5B:
            pc += 1
        elif op == 0x35:
            if len(st) < 1:
                return ("StackUnderflowError", None)
            o = st.pop()
            w = cd[o : o + 32] if o < len(cd) else b""
            st.append(int.from_bytes(w + b"\0" * (32 - len(w)), "big"))
            pc += 1
        elif 0x5F <= op <= 0x7F:
            L = ilen(op)
            raw = code[pc + 1 : pc + L]
            st.append(int.from_bytes(raw + b"\0" * (L - 1 - len(raw)), "big") if L > 1 else 0)
            pc += L
        else:
            return ("other", None)
        if len(st) > 1024:
            return ("overflow", None)


_ARGS = None


def run_jump_case(code: bytes, symbolic: bool = False):
    """run code through SEVM.run and compare with ref_run.  symbolic=True: 32 bytes of symbolic
    calldata (the program may CALLDATALOAD it, e.g. as a JUMPI condition); every reported path
    that admits a probe input must show the reference outcome for that input."""
    from vfw import sym

    global _ARGS
    probes = [b""] if not symbolic else [bytes(32), (1).to_bytes(32, "big"), (1 << 255).to_bytes(32, "big"), b"\xff" * 32]
    exps = [ref_run(code, cd=p) for p in probes]
    if any(e[0] in ("loop", "overflow", "other") for e in exps):
        return None, exps[0][0]
    if _ARGS is None:
        _ARGS = sym.base_config(depth=5000)
    world = {"accounts": [{"addr": 0x1000, "code": code.hex()}], "target": 0x1000, "cdlen": 32 if symbolic else 0, "caller": 1, "origin": 1, "value": 0}
    try:
        sevm, exs = sym.run_world(world, _ARGS)
    except Exception as e:
        return [(["run", "raise", type(e).__name__], repr(e))], exps[0][0]
    if not symbolic and len(exs) != 1:
        return [(["run", "paths"], f"{len(exs)} paths for concrete code")], exps[0][0]
    fails = []
    for p, (exp, exp_stack) in zip(probes, exps):
        env = symeval.Env({"cd": int.from_bytes(p, "big")} if symbolic else {})
        covering = []
        for ex in exs:
            try:
                ok, _, _ = symeval.eval_conditions(list(ex.path.conditions), env.copy())
            except Exception as e:
                fails.append((["run", "eval", type(e).__name__], repr(e)))
                ok = False
            if ok:
                covering.append(ex)
        if not covering:
            fails.append((["run", "uncovered"], f"no reported path admits calldata {p.hex()} (expected {exp})"))
            continue
        for ex in covering:
            err = ex.context.output.error
            got = "stop" if err is None and ex.context.output.data is not None else type(err).__name__
            if got != exp:
                tag = "rejects-genuine-jumpdest" if got == "InvalidJumpDestError" else ("jumps-into-invalid" if exp == "InvalidJumpDestError" else "outcome")
                fails.append((["run", tag], f"cd={p.hex()} got {got} expected {exp}"))
            elif exp == "stop":
                try:
                    st = [sym.word_value(w, env) for w in ex.st.stack]
                except Exception as e:
                    st = repr(e)
                if st != exp_stack:
                    fails.append((["run", "stack"], f"cd={p.hex()} got {st} expected {exp_stack}"))
    return fails, exps[-1][0]


# ---------------------------------------------------------------- loops whose head is the JUMPDEST at pc 0 (mode d)

def pc0_program(limit, kind, symbolic):
    """counter loop with its head at pc 0: JUMPDEST; c = mload(0) + 1; mstore(0, c); back to pc 0 while
    c < bound (JUMPI) / unless c == bound (JUMP); return c.  bound = limit or (calldata & 3) + 1"""
    from vfw import asm

    bound = [("PUSH", limit)] if not symbolic else [("PUSH", 3), ("PUSH", 0), "CALLDATALOAD", "AND", ("PUSH", 1), "ADD"]
    head = [("LABEL", "top"), ("PUSH", 0), "MLOAD", ("PUSH", 1), "ADD", "DUP1", ("PUSH", 0), "MSTORE"]
    if kind == "jumpi":
        # stack: c ; jump back while bound > c
        body = head + bound + ["GT", ("PUSHL", "top"), "JUMPI"]
    else:
        body = head + bound + ["EQ", ("PUSHL", "end"), "JUMPI", ("PUSHL", "top"), "JUMP", ("LABEL", "end")]
    return asm.assemble(body + [("PUSH", 32), ("PUSH", 0), "RETURN"])


def run_pc0_case(case, acc=None):
    from props import c01_sound as c01

    code = pc0_program(case["limit"], case["kind"], case["symbolic"])
    assert code[0] == 0x5B
    sub = Acc()
    fails = c01.run_case({"kind": "raw", "raw": code.hex(), "seed": case.get("seed", 1)}, sub)
    if acc is not None:
        acc.case(case, True, klass=["pc0-loop", case["kind"], "symbolic-bound" if case["symbolic"] else "concrete-bound"])
    return [(["pc0-loop"] + list(b), d) for b, d in fails]


# ---------------------------------------------------------------- shards

def shards(tier):
    L = 5 if tier == "quick" else 6
    out = []
    # exhaustive: partition by first two symbols (81 parts) grouped into 16 shards
    for k in range(16):
        out.append({"mode": "exh", "L": L, "part": k, "of": 16})
    for k in range(4 if tier == "quick" else 16):
        out.append({"mode": "rand", "n": 300 if tier == "quick" else 3000, "k": k})
    for k in range(8):
        out.append({"mode": "jump", "L": 3 if tier == "quick" else 4, "part": k, "of": 8})
    out.append({"mode": "pc0"})
    return out


def splits(n):
    yield (0, 0)
    for a in range(n):
        for b in range(a + 1, n + 1):
            yield (a, b)


def _do_case(acc: Acc, code: bytes, a: int, b: int, rep: str, sample_ok=True, light=False):
    fails = check_contract(code, a, b, rep, light)
    nt = nontrivial(code, a, b)
    case = {"mode": "contract", "code": code.hex(), "a": a, "b": b, "rep": rep}
    acc.case(f"c/{code.hex()}/{a}/{b}/{rep}" if len(code) < 64 else case, nt,
             klass=["split" if a < b else "concrete", "rep:" + rep], sample=case if sample_ok else None)
    for bucket, detail in fails:
        acc.fail(bucket, case, detail)


def run_shard(spec, seed, tier):
    acc = Acc()
    mode = spec["mode"]
    if mode == "exh":
        L = spec["L"]
        idx = 0
        for n in range(0, L + 1):
            for tup in itertools.product(ALPHA, repeat=n):
                idx += 1
                if idx % spec["of"] != spec["part"]:
                    continue
                code = bytes(tup)
                for a, b in splits(n):
                    _do_case(acc, code, a, b, "chunks", light=(n >= 5))
                    # the single-term representation is decoded through the slow path only;
                    # sample it on a stride to bound cost
                    if (a < b and (idx + a + b) % 3 == 0) or (a >= b and idx % 7 == 0):
                        _do_case(acc, code, a, b, "expr", light=(n >= 5))
        acc.exhaustive = True
    elif mode == "rand":
        rng = random.Random(seed)
        for _ in range(spec["n"]):
            n = rng.choice([rng.randrange(0, 40), rng.randrange(40, 300), rng.randrange(300, 4096)])
            style = rng.random()
            if style < 0.4:
                code = bytes(rng.choice([rng.randrange(256), rng.randrange(0x5B, 0x80), 0x5B, 0x7F, 0x60]) for _ in range(n))
            else:
                code = bytes(rng.randrange(256) for _ in range(n))
            # PUSH-heavy tail (truncated push data)
            if rng.random() < 0.7:
                code += bytes([rng.randrange(0x60, 0x80)]) + bytes(rng.choice([0x5B, rng.randrange(256)]) for _ in range(rng.randrange(0, 33)))
            n = len(code)
            if rng.random() < 0.5 or n == 0:
                a = b = 0
            else:
                a = rng.randrange(0, n)
                b = min(n, a + rng.choice([1, 2, 20, 32, 33, n]))
            # large cases: restrict byte-by-byte checks by trimming (keep decode logic whole)
            if n > 600:
                # full-size check is slow in pure Python for symbolic reads: keep concrete-only
                a = b = 0
            _do_case(acc, code, a, b, "chunks" if rng.random() < 0.8 or n > 200 else "expr")
    elif mode == "pc0":
        for kind in ("jumpi", "jump"):
            for symbolic in (False, True):
                for limit in (1, 2, 3):
                    case = {"mode": "pc0", "kind": kind, "symbolic": symbolic, "limit": limit, "seed": seed % 1000}
                    for bucket, detail in run_pc0_case(case, acc):
                        acc.fail(bucket, case, detail)
    elif mode == "jump":
        L = spec["L"]
        idx = 0
        for n in range(0, L + 1):
            for tup in itertools.product(ALPHA, repeat=n):
                idx += 1
                if idx % spec["of"] != spec["part"]:
                    continue
                body = bytes(tup)
                for kind in ("jump", "jumpi1", "jumpi0", "jumpis"):
                    hdr_len = 4 if kind == "jump" else 6
                    total = hdr_len + len(body)
                    for dest in range(0, total + 2):
                        if kind == "jump":
                            code = bytes([0x61]) + dest.to_bytes(2, "big") + bytes([0x56]) + body
                        elif kind == "jumpis":
                            # symbolic condition: both sides feasible (forking JUMPI)
                            code = bytes([0x5F, 0x35, 0x61]) + dest.to_bytes(2, "big") + bytes([0x57]) + body
                        else:
                            cv = 1 if kind == "jumpi1" else 0
                            code = bytes([0x60, cv, 0x61]) + dest.to_bytes(2, "big") + bytes([0x57]) + body
                        fails, exp = run_jump_case(code, symbolic=(kind == "jumpis"))
                        case = {"mode": "jump", "code": code.hex(), "symbolic": kind == "jumpis"}
                        if fails is None:
                            acc.exclude("ref:" + exp)
                            continue
                        # non-trivial: destination is a 0x5b byte (genuine or inside push data)
                        nt = dest < len(code) and code[dest] == 0x5B
                        acc.case("j/" + kind + code.hex(), nt, klass=["jump:" + exp, "kind:" + kind], sample=case)
                        for bucket, detail in fails:
                            acc.fail(bucket, case, detail)
        acc.exhaustive = True
    return acc


def replay(case):
    if case.get("mode") == "pc0":
        return [{"bucket": b, "detail": d} for b, d in run_pc0_case(case)]
    if case.get("mode") == "jump":
        fails, _ = run_jump_case(bytes.fromhex(case["code"]), symbolic=bool(case.get("symbolic")))
        fails = fails or []
    else:
        fails = check_contract(bytes.fromhex(case["code"]), case["a"], case["b"], case.get("rep", "chunks"))
    return [{"bucket": b, "detail": d} for b, d in fails]


def shrink(case, same):
    """drop bytes while the same bucket keeps failing"""
    if case.get("mode") in ("jump", "pc0"):
        return case
    code = bytes.fromhex(case["code"])
    a, b = case["a"], case["b"]
    changed = True
    while changed and len(code) > 1:
        changed = False
        for i in range(len(code)):
            nc = code[:i] + code[i + 1 :]
            na = a - 1 if i < a else a
            nb = b - 1 if i < b else b
            na, nb = max(0, na), max(0, nb)
            c2 = {"mode": "contract", "code": nc.hex(), "a": na, "b": nb, "rep": case.get("rep", "chunks")}
            if same(c2):
                code, a, b = nc, na, nb
                changed = True
                break
    return {"mode": "contract", "code": code.hex(), "a": a, "b": b, "rep": case.get("rep", "chunks")}
