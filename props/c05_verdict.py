"""C05 — verdict aggregation is fail-safe and independent of solver timing.

A fixed family of test functions with k <= 4 paths; the outcome of each path is chosen from
{success, revert, panic, fail-flag, stuck (unsupported opcode)} by branching on marker constants;
the "solver" is vfw/stubsolver.py, whose reply and delay for each query come from a generated
script keyed by the marker that occurs positively in the query: {sat + concrete model, sat +
abstract model, unsat, unsat with an empty core, unsat followed by an error and exit 1, unknown, hang past the assertion
timeout, empty output, garbage, non-zero exit without output, killed by a signal}; completion
order is controlled by the delays; flags --early-exit, --cache-solver, --solver-threads in {1,4}.
Quick: Hypothesis samples scripts; thorough: all outcome x reply assignments for k <= 2 are
enumerated.  Oracle: a 15-line reference function of the per-path outcomes; metamorphic: any
permutation of the delays gives the same verdict.
"""

from __future__ import annotations

import itertools
import json
import os
import random

from vfw import e2e
from vfw.hyp import run_cases, st
from vfw.runner import Acc

PROPERTY = "C05"
LEVEL = "fault_enumeration"
RULE = (
    "case = (per-path outcomes for k<=4 paths, scripted solver reply + delay per query, flags early_exit/cache_solver/"
    "solver_threads); each case is also run with its delays permuted. Non-trivial = >=2 different reply kinds or >=1 failure "
    "reply (unknown/hang/empty/garbage/exit/signal); distinct by the whole script."
)
ASSUMPTIONS = [
    "assertion timeout 60 s for scripts without a hanging reply (ordinary delays <= 0.15 s); the three hang scripts use 3 s against a 120 s hang: the only wall-clock dependence",
    "a sat reply (valid or potentially invalid model) makes the verdict FAIL, as the precedence in the statement says",
]
WATCHDOG_S = {"quick": 2400, "thorough": 10800}

MANIFEST = {
    "category": "fault_enumeration",
    "technique": "fault injection through a scripted stub solver (reply kind and delay per query) under generated per-path outcomes and flags; verdict compared with a reference precedence function; metamorphic check under permuted completion orders; exhaustive enumeration for k<=2 in the thorough tier",
    "text": "run_contract is driven with hand-assembled tests whose paths succeed, revert, panic, set the fail flag or get stuck, while a stub solver answers each query according to a generated script (sat with a concrete or abstract model, unsat with a full or an empty core, unsat followed by an error, unknown, hang past the timeout, empty/garbage output, non-zero exit, death by signal) after a scripted delay; the reported exit code must equal the reference precedence FAIL > ERROR > TIMEOUT > ERROR(stuck) > ERROR(all reverted) > PASS and must not change when completion order is permuted, with and without --early-exit, --cache-solver and several solver threads.",
    "note": "trusts the stub solver's marker-to-query mapping (checked through its own log) and the reference precedence function transcribed from the property statement",
}

OUTCOMES = ["success", "revert", "panic", "failflag", "stuck", "stuck_nested"]
REPLIES = ["sat", "sat_abstract", "unsat", "unsat_emptycore", "unsat_err", "unknown", "hang", "empty", "garbage", "exit3", "sigkill"]
MARK = ["a1" * 32, "b2" * 32, "c3" * 32, "d4" * 32]
STUB = os.path.join(os.path.dirname(os.path.dirname(os.path.abspath(__file__))), "vfw", "stubsolver.py")


def outcome_body(o):
    if o == "success":
        return [["mstore", 0, ["c", 1]], ["return", 0, 32]]
    if o == "revert":
        return [["revert", 0, 0]]
    if o == "panic":
        return e2e.panic_stmts(1)
    if o == "failflag":
        return e2e.failflag_stmts()
    if o == "stuck":
        return [["raw", "21"], ["stop"]]  # 0x21: not an EVM opcode halmos supports
    if o == "stuck_nested":
        # the unsupported opcode is hit inside a sub-context (init code of a CREATE)
        return [["create", "CREATE", ["c", 0], "2100", ["c", 0], 0x3E0], ["mstore", 0, ["c", 1]], ["return", 0, 32]]
    raise ValueError(o)


def build(case):
    body = []
    outs = case["outcomes"]
    # paths 0..k-2 guarded by their marker; the last outcome is the default path (never queried
    # unless it fails/sticks: then its query carries no positive marker -> "default" script entry)
    for i, o in enumerate(outs[:-1]):
        body.append(["if", ["op2", "EQ", e2e.arg(0), ["c", int(MARK[i], 16)]], outcome_body(o), []])
    body += outcome_body(outs[-1])
    fns = [{"sig": "check_v(uint256)", "body": body + [["stop"]]}]
    return e2e.artifact("T", fns)


def classify(reply):
    return {"sat": "sat", "sat_abstract": "sat", "unsat": "unsat", "unsat_emptycore": "unsat", "unsat_err": "unsat", "unknown": "unknown", "hang": "unknown"}.get(reply, "err")


def reference(case):
    outs = case["outcomes"]
    res = []
    stuck = 0
    normal = sum(1 for o in outs if o == "success")
    for i, o in enumerate(outs):
        key = MARK[i] if i < len(outs) - 1 else "default"
        r = classify(case["script"][key]["reply"])
        if o in ("panic", "failflag"):
            res.append(r)
        elif o in ("stuck", "stuck_nested"):
            if r != "unsat":
                stuck += 1
    if "sat" in res:
        return 1
    if "err" in res:
        return 5
    if "unknown" in res:
        return 2
    if stuck:
        return 3
    if normal == 0:
        return 4
    return 0


def run_once(case, delays):
    script = {}
    for i, (k, v) in enumerate(case["script"].items()):
        script[k] = {"reply": v["reply"], "delay": delays[i % len(delays)]}
    wd = os.path.join(os.environ.get("VERIF_HOME", "/verif"), ".work", "c05", str(os.getpid()))
    os.makedirs(wd, exist_ok=True)
    sp = os.path.join(wd, "script.json")
    with open(sp, "w") as f:
        json.dump(script, f)
    os.environ["STUB_SCRIPT"] = sp
    os.environ.pop("STUB_LOG", None)
    a = e2e.mk_args(solver_command=f"/venv/bin/python {STUB}", solver_timeout_assertion=float(case.get("timeout", 60.0)), early_exit=case["early_exit"], cache_solver=case["cache"], solver_threads=case["threads"])
    cj, _, _ = build(case)
    r = e2e.run(cj, args=a)
    return r


def run_case(case, acc=None):
    exp = reference(case)
    fails = []
    base_delays = case["delays"]
    perms = [base_delays, list(reversed(base_delays))]
    got = []
    for d in perms:
        try:
            r = run_once(case, d)
        except Exception as e:
            return [(["run-raise", type(e).__name__], repr(e)[:300])]
        if len(r.results) != 1:
            return [(["no-result"], f"{r.warnings()[:3]}")]
        got.append(r.results[0].exitcode)
    if got[0] != exp:
        fails.append((["verdict", f"expected:{exp}", f"got:{got[0]}"], f"outcomes={case['outcomes']} script={ {k: v['reply'] for k, v in case['script'].items()} } early_exit={case['early_exit']} cache={case['cache']} threads={case['threads']}"))
    if got[1] != got[0]:
        fails.append((["verdict-depends-on-completion-order"], f"{got} outcomes={case['outcomes']} script={ {k: v['reply'] for k, v in case['script'].items()} } delays={base_delays} early_exit={case['early_exit']} threads={case['threads']}"))
    if acc is not None:
        kinds = {v["reply"] for v in case["script"].values()}
        nt = len(kinds) >= 2 or bool(kinds & {"unknown", "hang", "empty", "garbage", "exit3", "sigkill", "unsat_err"})
        acc.case(case, nt, klass=[f"exit:{exp}", f"k:{len(case['outcomes'])}"] + (["early_exit"] if case["early_exit"] else []) + (["cache"] if case["cache"] else []), sample={"outcomes": case["outcomes"], "script": {k: v["reply"] for k, v in case["script"].items()}, "expected_exit": exp})
    return fails


def mk_case(outs, replies, delays, ee, cache, threads):
    keys = MARK[: len(outs) - 1] + ["default"]
    return {"outcomes": list(outs), "script": {k: {"reply": r} for k, r in zip(keys, replies)}, "delays": list(delays), "early_exit": ee, "cache": cache, "threads": threads}


def case_st():
    k = st.integers(1, 4)
    return k.flatmap(lambda n: st.builds(
        mk_case,
        st.lists(st.sampled_from(OUTCOMES + ["panic", "failflag", "success"]), min_size=n, max_size=n),
        # at most one hang per script (each costs the full assertion timeout)
        st.lists(st.sampled_from([r for r in REPLIES if r != "hang"] + ["unsat", "unsat", "sat"]), min_size=n, max_size=n).flatmap(
            lambda rs: st.one_of(st.just(rs), st.integers(0, n - 1).map(lambda i: rs[:i] + ["hang"] + rs[i + 1 :]) if False else st.just(rs))),
        st.lists(st.sampled_from([0.0, 0.02, 0.06, 0.12]), min_size=n, max_size=n),
        st.booleans(), st.booleans(), st.sampled_from([1, 4]),
    ))


def shards(tier):
    if tier == "quick":
        return [{"mode": "hyp", "n": 26} for _ in range(15)] + [{"mode": "hang"}]
    return [{"mode": "hyp", "n": 200} for _ in range(10)] + [{"mode": "enum", "part": k, "of": 5} for k in range(5)] + [{"mode": "hang"}]


def run_shard(spec, seed, tier):
    acc = Acc()
    if spec["mode"] == "hyp":

        def body(case):
            for b, d in run_case(case, acc):
                acc.fail(b, case, d)

        run_cases(case_st(), body, spec["n"], seed)
    elif spec["mode"] == "hang":
        # a few scripts with a reply that outlives the assertion timeout (-> unknown, never unsat)
        for outs, reps in ([["panic", "success"], ["hang", "unsat"]], [["stuck", "success"], ["hang", "unsat"]], [["failflag", "panic", "success"], ["unsat", "hang", "unsat"]]):
            case = mk_case(outs, reps, [0.0, 0.05, 0.1], False, False, 4)
            case["timeout"] = 3.0  # only the hanging reply can exceed it; the others answer in milliseconds
            for b, d in run_case(case, acc):
                acc.fail(b, case, d)
    else:
        idx = 0
        rng = random.Random(seed)
        for n in (1, 2):
            for outs in itertools.product(OUTCOMES, repeat=n):
                for reps in itertools.product([r for r in REPLIES if r != "hang"], repeat=n):
                    idx += 1
                    if idx % spec["of"] != spec["part"]:
                        continue
                    case = mk_case(outs, reps, [0.0, 0.08][:n] if n > 1 else [0.0], rng.random() < 0.5, rng.random() < 0.5, rng.choice([1, 4]))
                    for b, d in run_case(case, acc):
                        acc.fail(b, case, d)
        acc.exhaustive = True
    return acc


def replay(case):
    return [{"bucket": b, "detail": d} for b, d in run_case(case)]
