"""C04 — counterexamples marked valid are reproducible.

(a) All failing tests produced by the C03 grammar (extended with guards that force refinement:
    x*k, x/y, x%y, sdiv/smod, x**y, and with "EVM-zero" contradictions that are satisfiable only
    under SMT-LIB's x%0=x / x/0=~0 semantics) are run through run_contract with the solver files
    dumped to a scratch directory.  The Exec of every reported assertion violation is captured
    (harness-side wrapper); the values of each *valid* model are substituted into the captured
    symbolic calldata and the reference EVM executes the test from the post-setUp state: it must
    end in the reported failure.
(b) Every final solver answer (`<id>.smt2.out` or `<id>.refined.smt2.out`) that is `sat`: the
    model is valid iff the output no longer mentions an f_evm_ abstraction; a model that still
    depends on one must be reported as potentially invalid (warning), never valid.
(c) The values in TestResult.models equal the values in the dumped output parsed by an own
    s-expression reader; parse_model_str(render(vars)) == vars over generated names, widths
    1..1024, value syntaxes (#b, #x, (_ bvN W)) and layouts (single/multi-line, (model ...),
    decoys).
"""

from __future__ import annotations

import glob
import os
import random
import re
import shutil

from props import c03_pass as c03
from vfw import cheats, e2e, refevm, sym, symeval
from vfw.hyp import run_cases, st
from vfw.runner import Acc

PROPERTY = "C04"
LEVEL = "exploration"
RULE = (
    "case kinds: (cex) a generated failing test contract; every valid counterexample is replayed on the reference EVM; "
    "(syntax) a generated solver model text. Non-trivial = a replayed counterexample with >=1 non-zero parameter, or a test "
    "whose query went through refinement, or a model text with >=2 variables; distinct by contract/model text."
)
ASSUMPTIONS = [
    "the grammar uses no hash/gas/precompile abstraction over symbolic data, so every valid model must replay",
    "variables the solver leaves out of its model are unconstrained; the replay uses 0 for them",
]
WATCHDOG_S = {"quick": 2400, "thorough": 10800}

MANIFEST = {
    "technique": "counterexample replay: solver models substituted into the captured symbolic calldata and executed on the reference EVM; validity flag cross-checked against the dumped solver output; generated model-syntax round trips against an independent s-expression reader",
    "text": "Every FAIL produced by generated test contracts (including guards over MUL/DIV/MOD/SDIV/SMOD/EXP that force the refinement step, and guards satisfiable only under SMT-LIB's division-by-zero semantics) is replayed: the model's values are put into the calldata that halmos explored and the test is executed concretely from the post-setUp state, where a model marked valid must reproduce the failure; models whose final solver output still mentions an f_evm_ abstraction must be flagged potentially invalid; printed values must equal the dumped solver output, and the model parser must round-trip generated model texts in yices/z3/stp layouts.",
    "note": "trusts the reference EVM and the own s-expression reader; solvers' sat answers are re-decided by replay",
}

_ARGS = {}


def work_dir():
    d = os.path.join(os.environ.get("VERIF_HOME", "/verif"), ".work", "c04", str(os.getpid()))
    os.makedirs(d, exist_ok=True)
    return d


def own_model_reader(text):
    """independent reader for (define-fun NAME () (_ BitVec N) VALUE) entries"""
    out = {}
    toks = re.findall(r"\(|\)|\|[^|]*\||[^\s()]+", text)
    i = 0
    while i < len(toks):
        if toks[i] == "define-fun" and i + 1 < len(toks):
            name = toks[i + 1].strip("|")
            # expect ( ) ( _ BitVec N ) VALUE
            j = i + 2
            if toks[j : j + 2] == ["(", ")"] and toks[j + 2 : j + 5] == ["(", "_", "BitVec"]:
                n = int(toks[j + 5])
                k = j + 7
                v = None
                if toks[k].startswith("#b"):
                    v = int(toks[k][2:], 2)
                elif toks[k].startswith("#x"):
                    v = int(toks[k][2:], 16)
                elif toks[k] == "(" and toks[k + 1] == "_" and toks[k + 2].startswith("bv"):
                    v = int(toks[k + 2][2:])
                if v is not None and (name.startswith("halmos_") or name.startswith("p_")):
                    out[name] = (n, v)
        i += 1
    return out


def calldata_from_model(sig, t, consts):
    """selector + ABI encoding of the argument values the model assigns (0 / first candidate for
    variables the solver left out)"""
    def find(prefix, default=0):
        for k, v in consts.items():
            if k.startswith(prefix):
                return v
        return default

    params = t["params"]
    head, tail = b"", b""
    n = len(params)
    for i, ty in enumerate(params):
        if ty == "bytes":
            mx = max(c03.CANDS["bytes"])
            pad = (mx + 31) // 32 * 32
            L = find(f"p_p{i}_length_", c03.CANDS["bytes"][0])
            data = find(f"p_p{i}_bytes_", 0).to_bytes(pad, "big")[:L]
            head += (32 * n + len(tail)).to_bytes(32, "big")
            tail += L.to_bytes(32, "big") + data + bytes((-L) % 32)
        elif ty == "uint256[]":
            L = find(f"p_p{i}_length_", c03.CANDS["uint256[]"][0])
            head += (32 * n + len(tail)).to_bytes(32, "big")
            tail += L.to_bytes(32, "big") + b"".join(find(f"p_p{i}[{k}]_uint256_", 0).to_bytes(32, "big") for k in range(L))
        else:
            head += find(f"p_p{i}_{ty}_", 0).to_bytes(32, "big")
    return bytes.fromhex(e2e.selector(sig)) + head + tail


def run_cex_case(case, acc=None):
    key = (case["solver"], case["layout"], case["codes"])
    dd = os.path.join(work_dir(), "dump")
    shutil.rmtree(dd, ignore_errors=True)
    os.makedirs(dd, exist_ok=True)
    a = e2e.mk_args(solver_command=e2e.YICES if case["solver"] == "yices" else e2e.Z3, storage_layout=case["layout"], panic_error_codes=c03.parse_codes(case["codes"]),
                    solver_timeout_assertion=5.0, dump_smt_queries=True, dump_smt_directory=dd)
    cj, _, _ = c03.build(case)
    try:
        r = e2e.run(cj, args=a)
    except Exception as e:
        return [(["run-raise", type(e).__name__], repr(e)[:300])]
    res = r.by_sig()
    fails = []
    rng = random.Random(1)
    for n, t in enumerate(case["tests"]):
        sig = f"check_t{n}({','.join(t['params'])})"
        tr = res.get(sig)
        if tr is None:
            continue
        fdir = os.path.join(dd, f"check_t{n}")
        outs = {}
        for f in glob.glob(os.path.join(fdir, "*.smt2.out")):
            base = os.path.basename(f)
            pid = base.split(".")[0]
            refined = ".refined." in base
            if refined or pid not in outs:
                outs[pid] = (open(f).read(), refined)
        went_refine = any(rf for _, rf in outs.values())
        # (b) validity flag vs final solver output ; (c) printed values vs file
        file_models = []
        for pid, (text, refined) in outs.items():
            first = text.split("\n", 1)[0].strip()
            if first != "sat":
                continue
            file_models.append((own_model_reader(text), "f_evm_" in text))
        models = tr.models or []
        for m in models:
            vals = {k: v.value for k, v in m.model.items()}
            match = [fm for fm in file_models if {k: v for k, (n_, v) in fm[0].items()} == vals]
            if not match:
                fails.append((["printed-values-differ"], f"{sig}: model {vals} does not equal any dumped solver output {[fm[0] for fm in file_models][:2]}"))
                continue
            abstract = all(fm[1] for fm in match)
            if abstract and m.is_valid:
                fails.append((["abstract-model-marked-valid"], f"{sig}: solver output still mentions f_evm_ but the model is marked valid: {vals}"))
            if not abstract and not m.is_valid and not any(fm[1] for fm in match):
                fails.append((["exact-model-marked-invalid"], f"{sig}: model {vals} marked potentially invalid although no abstraction remains"))
        invalid = [m for m in models if not m.is_valid]
        if invalid and not any("potentially invalid" in w for w in r.warnings()):
            fails.append((["invalid-model-without-warning"], sig))
        # (a) replay valid models
        caps = [c for c in r.cap.cex if c["fun"] == sig]
        for m in models:
            if not m.is_valid:
                continue
            consts = {k: v.value for k, v in m.model.items()}
            reproduced = False
            nonzero = any(v for v in consts.values())
            # rebuild the concrete calldata from the model by parameter name (a failure inside a
            # nested call yields the inner frame, whose own calldata is not the test's)
            raw = calldata_from_model(sig, t, consts)
            ch = cheats.Cheats()
            try:
                w, evm = e2e.ref_setup(cj, cheats=ch)
                ch.test_failed = False
                rr = e2e.call(evm, raw)
                reproduced = ch.test_failed or e2e.failed(rr, tuple(c03.parse_codes(case["codes"])))
            except Exception as e:
                fails.append((["harness", "ref-raise"], repr(e)[:200]))
                continue
            if caps and not reproduced:
                fails.append((["valid-counterexample-does-not-replay", t["kind"]], f"{sig}: model {consts} (valid) does not make the test fail on the reference EVM; atoms={t['atoms']} solver={case['solver']}"))
            if acc is not None:
                acc.case({"t": t, "m": sorted(consts.items())}, nonzero or went_refine, klass=["replayed", t["kind"], case["solver"]] + (["refined"] if went_refine else []),
                         sample={"sig": sig, "atoms": t["atoms"], "model": {k: hex(v) for k, v in consts.items()}})
        if acc is not None and not models:
            acc.case({"t": t, "none": True}, False, klass=["no-model", f"exit:{tr.exitcode}"])
    return fails


# ---------------------------------------------------------------- (c) model syntax round trips

def render_value(v, n, style):
    if style == "b":
        return "#b" + format(v, f"0{n}b")
    if style == "x" and n % 4 == 0:
        return "#x" + format(v, f"0{n // 4}x")
    return f"(_ bv{v} {n})"


def syntax_st():
    name = st.builds(lambda pre, var, typ, uid, nn, bar: ((f"{pre}_{var}_{typ}_{uid}_{nn:02d}"), bar),
                     st.sampled_from(["p", "halmos"]), st.sampled_from(["x", "amount", "a[0]", "s.x", "to", "y1"]), st.sampled_from(["uint256", "uint8", "address", "bool", "bytes", "length", "int128"]),
                     st.text("0123456789abcdef", min_size=7, max_size=7), st.integers(0, 20), st.booleans())
    var = st.builds(lambda nb, n, vs, style: (nb, n, vs % (1 << n), style), name, st.one_of(st.sampled_from([1, 8, 160, 256, 512, 1024]), st.integers(1, 300)), st.integers(0, 1 << 1024), st.sampled_from(["b", "x", "d"]))
    return st.builds(lambda vs, layout, decoys, seed: {"kind": "syntax", "vars": [[nb[0], nb[1], n, v, sty] for (nb, n, v, sty) in vs], "layout": layout, "decoys": decoys, "seed": seed},
                     st.lists(var, min_size=1, max_size=5, unique_by=lambda t: t[0][0]), st.sampled_from(["yices", "z3", "stp", "multiline"]), st.integers(0, 3), st.integers(0, 1 << 20))


def run_syntax_case(case):
    from halmos.solve import parse_model_str

    rng = random.Random(case["seed"])
    entries = []
    for name, bar, n, v, sty in case["vars"]:
        nm = f"|{name}|" if bar or any(ch in name for ch in "[].") else name
        val = render_value(v, n, sty)
        if case["layout"] == "multiline":
            entries.append(f"  (define-fun {nm} () (_ BitVec {n})\n    {val})")
        else:
            entries.append(f"(define-fun {nm} () (_ BitVec {n}) {val})")
    for d in range(case["decoys"]):
        entries.append(rng.choice([
            f"(define-fun f_evm_bvmul_256 ((x!0 (_ BitVec 256)) (x!1 (_ BitVec 256))) (_ BitVec 256) #x{0:064x})",
            f"(define-fun storage_0x1_{d} () (Array (_ BitVec 256) (_ BitVec 256)) ((as const (Array (_ BitVec 256) (_ BitVec 256))) #x{0:064x}))",
            f"(define-fun q_other_{d} () (_ BitVec 8) #x0{d})",
        ]))
    rng.shuffle(entries)
    body = "\n".join(entries)
    text = {"yices": f"sat\n{body}\n", "z3": f"sat\n(\n{body}\n)\n", "stp": f"sat\n(model\n{body}\n)\n", "multiline": f"sat\n(\n{body}\n)\n"}[case["layout"]]
    try:
        got = parse_model_str(text)
    except Exception as e:
        return [(["syntax", "raise", type(e).__name__], f"{e!r} on {text[:300]}")]
    want = {name: (n, v) for name, bar, n, v, sty in case["vars"]}
    g = {k: (mv.size_bits, mv.value) for k, mv in got.items()}
    if g != want:
        missing = sorted(set(want) - set(g))[:2]
        wrong = [(k, g[k], want[k]) for k in want if k in g and g[k] != want[k]][:2]
        return [(["syntax", "mismatch", case["layout"]], f"missing={missing} wrong={wrong} text={text[:300]!r}")]
    return []


def shards(tier):
    n = 12 if tier == "quick" else 500
    return [{"mode": "cex", "n": n} for _ in range(14)] + [{"mode": "syntax", "n": 2500 if tier == "quick" else 50000} for _ in range(2)]


def run_shard(spec, seed, tier):
    acc = Acc()
    if spec["mode"] == "syntax":

        def body(case):
            f = run_syntax_case(case)
            acc.case(case, len(case["vars"]) >= 2, klass=["syntax:" + case["layout"]])
            for b, d in f:
                acc.fail(b, case, d)

        run_cases(syntax_st(), body, spec["n"], seed)
        return acc
    c03.ALLOW_EXP = True

    def body2(case):
        # failing tests are what matters here: make every test reachable or EVM-zero
        for b, d in run_cex_case(case, acc):
            acc.fail(b, case, d)

    run_cases(c03.case_st(), body2, spec["n"], seed)
    shutil.rmtree(work_dir(), ignore_errors=True)
    return acc


def replay(case):
    if case.get("kind") == "syntax":
        return [{"bucket": b, "detail": d} for b, d in run_syntax_case(case)]
    return [{"bucket": b, "detail": d} for b, d in run_cex_case(case)]
