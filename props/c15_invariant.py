"""C15 — invariant testing covers every bounded call sequence.

Generated stateful target contracts (1-2 contracts of 1-4 external functions over 2-3 storage
slots; guards on argument, storage, msg.sender, msg.value and block.timestamp; effects set /
add / copy / swap / store-argument / store-sender; optional assertion inside a target) are
deployed by setUp() of a hand-assembled test contract that answers the six forge-std filter
getters (targetSenders, excludeSenders, targetContracts, excludeContracts, targetSelectors,
excludeSelectors) with generated ABI blobs and has 1-2 invariant_* functions over the targets'
state; invariant_depth 0..3.

Oracles
  (a) completeness: the same contracts are brute-forced on the reference EVM: every sequence of
      <= d admissible calls (filter model transcribed from Foundry's documented precedence) over
      boundary-value domains for argument / sender / value / non-decreasing timestamps; a sequence
      that breaks invariant k => halmos must report FAIL for invariant_k;
  (b) validity: every valid counterexample halmos prints (call sequence + model) is replayed call
      by call on the reference EVM: each call must be admissible and succeed, and the invariant
      must break at the end;
  (c) assertions inside targets: if brute force reaches one within d calls, halmos must print the
      "Assertion failure detected in" report, its sequence must replay, and the verdict must not
      be a clean PASS;
  (e) filters: the (contract, function) pairs that the frontier computation executes, and the
      senders its sender condition admits, are exactly those of the filter model;
  (d) state merging: the verdicts must be the same when state de-duplication is disabled in the
      harness process, and when the functions are listed in another order in the artifacts.
"""

from __future__ import annotations

import copy
import itertools
import json
import random

from props import c04_cex as c04
from vfw import cheats, e2e, refevm, sym, symeval
from vfw.hyp import run_cases, st
from vfw.runner import Acc

PROPERTY = "C15"
LEVEL = "exploration"
RULE = (
    "case = (1-2 target contracts x 1-4 functions over <=3 slots with guards/effects, optional in-target assertion, filter "
    "configuration over senders/contracts/selectors or no forge-std getters at all, 1-2 invariants, invariant_depth 0..3, "
    "function order permutation). Non-trivial = the reference finds a break only with a sequence of >= 2 calls, or a non-empty "
    "filter is in force; distinct by content."
)
ASSUMPTIONS = [
    "the reference brute force ranges over boundary-value domains (constants of the case +-1) for arguments, call values and timestamps and over {3 named senders, one other}: it under-approximates the set of breaking sequences, so only 'reference breaks => halmos FAIL' and 'halmos counterexample => replays' are asserted",
    "top-level call value is not transferred in the replay of the main families (halmos does not move balance for top-level invariant calls; their targets never read balances); the separate `balance` family reads balances, transfers value on the reference side and is a recorded known finding",
    "filter precedence as documented by Foundry and restated in the comments of run_target_contract / resolve_target_*: effective senders = targeted - excluded, else all but excluded; contracts = (targeted or all deployed) - excluded + keys of targetSelectors, the test contract only if targeted explicitly; selectors = targeted, else all but excluded, else all non-view",
]
WATCHDOG_S = {"quick": 2400, "thorough": 10800}

MANIFEST = {
    "technique": "model-based testing of call histories: generated stateful target contracts and filter configurations, brute force of all call sequences up to the depth on a reference EVM as ground truth, replay of every reported call sequence, and metamorphic runs with state merging disabled / function order permuted",
    "text": "Generated target contracts (guards on argument, storage, sender, value, timestamp; confluent effects; optional assertion inside a target) with generated targetSenders/excludeSenders/targetContracts/excludeContracts/targetSelectors/excludeSelectors answers and invariant_depth 0..3 are run through run_contract; all admissible call sequences up to the depth are brute-forced on a reference EVM over boundary-value domains: whenever some sequence breaks an invariant halmos must report FAIL for it, every counterexample sequence halmos prints must be admissible, succeed call by call and break the invariant on the reference EVM, the (contract, function) pairs executed by the frontier computation and the senders admitted by its sender condition must be exactly those of the filter model, in-target assertion failures must be reported with a replayable sequence, and verdicts must not change when state de-duplication is switched off or the functions are listed in another order.",
    "note": "trusts the reference EVM, the filter model transcribed from Foundry's documented precedence, and yices for unsat answers; the brute force is bounded to small value domains",
}

SENDERS = [0xA11CE, 0xB0B, 0xCA401]
OTHER = 0xDEAD01
ADDR_SLOT = 0x10  # test-contract slot 0x10+k holds the address of the k-th target
NAMES = ["A", "B"]


# ---------------------------------------------------------------- contracts

def cmp_expr(op, a, b):
    return {"eq": ["op2", "EQ", a, b], "ne": ["op1", "ISZERO", ["op2", "EQ", a, b]], "lt": ["op2", "LT", a, b], "gt": ["op2", "GT", a, b]}[op]


def guard_expr(g):
    k = g[0]
    if k == "arg":
        return cmp_expr(g[1], e2e.arg(0), ["c", g[2]])
    if k == "slot":
        return cmp_expr(g[2], ["sload", ["c", g[1]]], ["c", g[3]])
    if k == "sender":
        return cmp_expr(g[1], ["env", "CALLER"], ["c", SENDERS[g[2]]])
    if k == "value":
        return cmp_expr(g[1], ["env", "CALLVALUE"], ["c", g[2]])
    if k == "ts":
        return cmp_expr(g[1], ["env", "TIMESTAMP"], ["c", g[2]])
    if k == "selfbal":  # only in the `balance` family (known finding: value is not transferred)
        return cmp_expr(g[1], ["bal", ["env", "ADDRESS"]], ["c", g[2]])
    raise ValueError(g)


def effect_stmts(e):
    k = e[0]
    if k == "set":
        return [["sstore", ["c", e[1]], ["c", e[2]]]]
    if k == "add":
        return [["sstore", ["c", e[1]], ["op2", "ADD", ["sload", ["c", e[1]]], ["c", e[2]]]]]
    if k == "setarg":
        return [["sstore", ["c", e[1]], e2e.arg(0)]]
    if k == "copy":
        return [["sstore", ["c", e[1]], ["sload", ["c", e[2]]]]]
    if k == "swap":
        return [["mstore", 0x80, ["sload", ["c", e[1]]]], ["sstore", ["c", e[1]], ["sload", ["c", e[2]]]], ["sstore", ["c", e[2]], ["mload", 0x80]]]
    if k == "setsender":
        return [["sstore", ["c", e[1]], ["env", "CALLER"]]]
    if k == "split":
        # one call, two successful outcomes over the same stored symbol: s_j = arg; s_j2 = (arg < c) ? 1 : 2
        return [["sstore", ["c", e[1]], e2e.arg(0)],
                ["if", ["op2", "LT", e2e.arg(0), ["c", e[3]]], [["sstore", ["c", e[2]], ["c", 1]]], [["sstore", ["c", e[2]], ["c", 2]]]]]
    raise ValueError(e)


def fn_sig(f, idx):
    return f"f{idx}(uint256)" if f["arg"] else f"f{idx}()"


def fn_body(f):
    body = []
    if not f["payable"]:
        body.append(["if", ["env", "CALLVALUE"], [["revert", 0, 0]], []])
    for g in f["guards"]:
        body.append(["if", guard_expr(g), [], [["revert", 0, 0]]])
    if f.get("assert"):
        body.append(["if", guard_expr(f["assert"]), e2e.panic_stmts(1), []])
    for e in f["effects"]:
        body += effect_stmts(e)
    return body + [["stop"]]


# one view getter per slot (a getter with a slot *argument* would make halmos stop at the symbolic
# storage base slot whenever it is selected as a target)
GETTER_SIGS = ["get0()", "get1()", "get2()"]
GETTER_FNS = [{"sig": f"get{k}()", "body": [["mstore", 0, ["sload", ["c", k]]], ["return", 0, 32]], "mutability": "view", "outputs": [{"name": "", "type": "uint256"}]} for k in range(3)]


def target_functions(t, order):
    fns = [{"sig": fn_sig(f, i), "body": fn_body(f), "mutability": "payable" if f["payable"] else "nonpayable"} for i, f in enumerate(t["fns"])]
    fns += [dict(g) for g in GETTER_FNS]
    rng = random.Random(order)
    if order:
        rng.shuffle(fns)
    return fns


def addr_expr(name, case):
    if name == "TEST":
        return ["env", "ADDRESS"]
    return ["sload", ["c", ADDR_SLOT + [t["name"] for t in case["targets"]].index(name)]]


def ret_address_array(exprs):
    base = 0x600
    body = [["mstore", base, ["c", 0x20]], ["mstore", base + 0x20, ["c", len(exprs)]]]
    for k, e in enumerate(exprs):
        body.append(["mstore", base + 0x40 + 32 * k, e])
    return body + [["return", base, 0x40 + 32 * len(exprs)]]


def ret_fuzzselector_array(items):
    """items: [(addr_expr, [selector_hex...])]"""
    base = 0x600
    body = [["mstore", base, ["c", 0x20]], ["mstore", base + 0x20, ["c", len(items)]]]
    heads = base + 0x40
    off = 32 * len(items)
    for k, (ae, sels) in enumerate(items):
        body.append(["mstore", heads + 32 * k, ["c", off]])
        start = heads + off
        body.append(["mstore", start, ae])
        body.append(["mstore", start + 32, ["c", 0x40]])
        body.append(["mstore", start + 64, ["c", len(sels)]])
        for j, s in enumerate(sels):
            body.append(["mstore", start + 96 + 32 * j, ["c", int(s, 16) << 224]])
        off += 32 * (3 + len(sels))
    return body + [["return", base, 0x40 + off]]


def sel_of(case, cname, idx):
    if cname == "TEST":
        return e2e.selector("bump()")
    t = next(t for t in case["targets"] if t["name"] == cname)
    if idx >= len(t["fns"]):
        return e2e.selector(GETTER_SIGS[0])
    return e2e.selector(fn_sig(t["fns"][idx], idx))


def inv_body(inv, case):
    """if the invariant condition is violated -> Panic(1)"""
    if inv["contract"] == "TEST":
        val = ["sload", ["c", inv["slot"]]]
        pre = []
    else:
        data = bytes.fromhex(e2e.selector(GETTER_SIGS[inv["slot"]]))
        pre = [["memw", 0x500, data.hex()], ["call", "STATICCALL", addr_expr(inv["contract"], case), ["c", 0], 0x500, 4, 0x540, 32, 0x560]]
        val = ["mload", 0x540]
    return pre + [["if", cmp_expr(inv["cmp"], val, ["c", inv["c"]]), [], e2e.panic_stmts(1)], ["stop"]]


def build(case, order=0):
    others = {}
    setup = []
    for k, t in enumerate(case["targets"]):
        tcj, tcreation, _ = e2e.artifact(t["name"], target_functions(t, order and order + k))
        others[t["name"]] = tcj
        setup += [["create", "CREATE", ["c", 0], tcreation.hex(), ["c", 0], 0x3E0], ["sstore", ["c", ADDR_SLOT + k], ["mload", 0x3E0]]]
    fns = [{"sig": "setUp()", "body": setup + [["stop"]]}]
    if case.get("bump"):
        fns.append({"sig": "bump()", "body": [["sstore", ["c", 5], ["op2", "ADD", ["sload", ["c", 5]], ["c", 1]]], ["stop"]]})
    for i, inv in enumerate(case["invariants"]):
        f_ = {"sig": f"invariant_i{i}()", "body": inv_body(inv, case)}
        if str(i) in (case.get("inv_devdoc") or {}):
            f_["devdoc"] = case["inv_devdoc"][str(i)]  # per-invariant @custom:halmos annotation (used by C20)
        fns.append(f_)
    f = case["filters"]
    if f is not None:
        view = {"mutability": "view"}
        fns.append({"sig": "targetSenders()", "body": ret_address_array([["c", SENDERS[k]] for k in f["tsend"]]), **view})
        fns.append({"sig": "excludeSenders()", "body": ret_address_array([["c", SENDERS[k]] for k in f["xsend"]]), **view})
        fns.append({"sig": "targetContracts()", "body": ret_address_array([addr_expr(n, case) for n in f["tcon"]]), **view})
        fns.append({"sig": "excludeContracts()", "body": ret_address_array([addr_expr(n, case) for n in f["xcon"]]), **view})
        fns.append({"sig": "targetSelectors()", "body": ret_fuzzselector_array([(addr_expr(n, case), [sel_of(case, n, i) for i in idxs]) for n, idxs in f["tsel"]]), **view})
        fns.append({"sig": "excludeSelectors()", "body": ret_fuzzselector_array([(addr_expr(n, case), [sel_of(case, n, i) for i in idxs]) for n, idxs in f["xsel"]]), **view})
    if order:
        head, rest = fns[:1], fns[1:]
        random.Random(order).shuffle(rest)
        fns = head + rest
    cj, _, _ = e2e.artifact("T", fns)
    return cj, others


# ---------------------------------------------------------------- filter model (Foundry precedence)

def filter_model(case, addrs):
    """-> (sender_ok(addr), [(contract_name, address, [(sig, selector, fn or None)])])"""
    f = case["filters"] or {"tsend": [], "xsend": [], "tcon": [], "xcon": [], "tsel": [], "xsel": []}
    tsend = {SENDERS[k] for k in f["tsend"]}
    xsend = {SENDERS[k] for k in f["xsend"]}
    eff = tsend - xsend
    if eff:
        sender_ok = lambda s: s in eff  # noqa: E731
    elif xsend:
        sender_ok = lambda s: s not in xsend  # noqa: E731
    else:
        sender_ok = lambda s: True  # noqa: E731
    deployed = ["TEST"] + [t["name"] for t in case["targets"]]
    tsel = {}
    for n, idxs in f["tsel"]:
        tsel.setdefault(n, []).extend(idxs)
    xsel = {}
    for n, idxs in f["xsel"]:
        xsel.setdefault(n, []).extend(idxs)
    resolved = set(f["tcon"]) if f["tcon"] else set(deployed)
    resolved -= set(f["xcon"])
    resolved |= set(tsel)
    if not ("TEST" in f["tcon"] or tsel.get("TEST")):
        resolved.discard("TEST")
    out = []
    for n in deployed:
        if n not in resolved:
            continue
        if n == "TEST":
            allf = [("bump()", e2e.selector("bump()"), None)] if case.get("bump") else []
            # reserved functions and forge-std getters are never generated as selector filters
            if tsel.get(n):
                fl = allf
            else:
                fl = allf  # default: non-view, non-reserved functions = bump()
            out.append((n, addrs[n], fl))
            continue
        t = next(t for t in case["targets"] if t["name"] == n)
        allf = [(fn_sig(fn, i), e2e.selector(fn_sig(fn, i)), fn) for i, fn in enumerate(t["fns"])]
        getters = [(g, e2e.selector(g), None) for g in GETTER_SIGS]
        if tsel.get(n):
            want = {sel_of(case, n, i) for i in tsel[n]}
            fl = [x for x in allf + getters if x[1] in want]
        elif xsel.get(n):
            drop = {sel_of(case, n, i) for i in xsel[n]}
            fl = [x for x in allf + getters if x[1] not in drop]
        else:
            fl = allf
        out.append((n, addrs[n], fl))
    return sender_ok, out


# ---------------------------------------------------------------- reference brute force

def consts_of(case):
    cs, vs, ts = set(), set(), set()
    for t in case["targets"]:
        for f in t["fns"]:
            for g in f["guards"] + ([f["assert"]] if f.get("assert") else []):
                if g[0] == "arg":
                    cs.add(g[2])
                elif g[0] == "slot":
                    cs.add(g[3])
                elif g[0] in ("value", "selfbal"):
                    vs.add(g[2])
                elif g[0] == "ts":
                    ts.add(g[2])
            for e in f["effects"]:
                if e[0] in ("set", "add"):
                    cs.add(e[2])
                elif e[0] == "split":
                    cs.add(e[3])
    for inv in case["invariants"]:
        cs.add(inv["c"])
    pm = lambda s: sorted({max(0, c + d) for c in s for d in (-1, 0, 1)})  # noqa: E731
    return sorted(set(pm(cs)) | {0, 1}), sorted(set(pm(vs)) | {0}), sorted(set(pm(ts)) | {1})


def uses(f, kind):
    gs = f["guards"] + ([f["assert"]] if f.get("assert") else [])
    if kind == "arg":
        return any(g[0] == "arg" for g in gs) or any(e[0] in ("setarg", "split") for e in f["effects"])
    if kind == "sender":
        return any(g[0] == "sender" for g in gs) or any(e[0] == "setsender" for e in f["effects"])
    return any(g[0] == kind for g in gs)


def world_key(w, addrs):
    return tuple((tuple(sorted(w.accounts[a].storage.items())), w.accounts[a].balance) for a in addrs)


class RefModel:
    def __init__(self, case, cj):
        self.case = case
        ch = cheats.Cheats()
        self.w0, self.evm = e2e.ref_setup(cj, cheats=ch)
        test = self.w0.accounts[e2e.FOUNDRY_TEST]
        self.addrs = {"TEST": e2e.FOUNDRY_TEST}
        for k, t in enumerate(case["targets"]):
            self.addrs[t["name"]] = test.storage.get(ADDR_SLOT + k, 0)
        self.sender_ok, self.targets = filter_model(case, self.addrs)
        self.argd, self.vald, self.tsd = consts_of(case)
        self.any_ts = len(self.tsd) > 1
        self.reads_balance = "selfbal" in json.dumps(case["targets"])
        self.watch = [self.addrs[n] for n in self.addrs]

    def call(self, w, ts, target, data, sender, value):
        w2 = copy.deepcopy(w)
        evm = refevm.EVM(w2, block=refevm.Block(timestamp=ts), cheats=cheats.Cheats())
        evm.max_steps = 20000
        msg = refevm.Msg(caller=sender, target=target, code_addr=target, value=value, data=data, origin=sender)
        if self.reads_balance and value:
            # the statement: "any call value the sender's balance allows" - senders are funded
            w2.accounts.setdefault(sender, refevm.Account()).balance = 1 << 100
        return w2, evm.run_tx(msg, transfer_value=self.reads_balance)

    def inv_broken(self, w, ts, i):
        _, res = self.call(w, ts, e2e.FOUNDRY_TEST, bytes.fromhex(e2e.selector(f"invariant_i{i}()")), e2e.FOUNDRY_CALLER, 0)
        return e2e.failed(res)

    def options(self):
        senders_all = [s for s in SENDERS + [OTHER] if self.sender_ok(s)]
        for name, addr, fl in self.targets:
            for sig, sel, fn in fl:
                if fn is None:
                    args, snd, vals = ([0, 1, 2] if "uint256" in sig else [None]), senders_all[:1], [0]
                else:
                    args = self.argd if uses(fn, "arg") else ([0] if fn["arg"] else [None])
                    snd = senders_all if uses(fn, "sender") else senders_all[:1]
                    vals = self.vald if (fn["payable"] and (uses(fn, "value") or self.reads_balance)) else [0]
                for a, s, v in itertools.product(args, snd, vals):
                    data = bytes.fromhex(sel) + (b"" if a is None else a.to_bytes(32, "big"))
                    yield {"contract": name, "sig": sig, "arg": a, "sender": s, "value": v}, addr, data

    def explore(self, depth, max_states=150):
        """-> (breaks {inv index: sequence}, probes {(contract, sig): sequence}, complete?)"""
        ninv = len(self.case["invariants"])
        breaks, probes = {}, {}
        level = [(self.w0, 1, [])]
        for i in range(ninv):
            if self.inv_broken(self.w0, 1, i):
                breaks[i] = []
        seen = {(world_key(self.w0, self.watch), 1)}
        complete = True
        opts = list(self.options())
        if not senders_exist(self):
            return breaks, probes, complete
        for _d in range(1, depth + 1):
            nxt = []
            for w, ts, seq in level:
                for desc, addr, data in opts:
                    w2, res = self.call(w, ts, addr, data, desc["sender"], desc["value"])
                    step = dict(desc, ts=ts)
                    if res.status != "success":
                        if e2e.failed(res):
                            probes.setdefault((desc["contract"], desc["sig"]), seq + [step])
                        continue
                    for ts2 in [t for t in self.tsd if t >= ts] if self.any_ts else [ts]:
                        key = (world_key(w2, self.watch), ts2)
                        if key in seen:
                            continue
                        seen.add(key)
                        seq2 = seq + [dict(step, ts_after=ts2)]
                        for i in range(ninv):
                            if i not in breaks and self.inv_broken(w2, ts2, i):
                                breaks[i] = seq2
                        if len(nxt) < max_states:
                            nxt.append((w2, ts2, seq2))
                        else:
                            complete = False
            level = nxt
        return breaks, probes, complete


def senders_exist(rm):
    return any(rm.sender_ok(s) for s in SENDERS + [OTHER])


# ---------------------------------------------------------------- replay of a reported sequence

def model_env(model):
    consts = {k: v.value for k, v in model.model.items()}
    return symeval.Env(consts=consts, default_const=lambda *a: 0)


def replay_sequence(rm, ex, model, inv_index, depth):
    """-> list of problems (empty = the sequence is admissible and reproduces the failure)"""
    env = model_env(model)
    memo = {}
    problems = []
    w = rm.w0
    ts = 1
    seq = list(ex.call_sequence)  # for a probe the failing target call is already the last element
    if len(seq) > depth:
        problems.append(("sequence-longer-than-depth", f"{len(seq)} calls, depth {depth}"))
    allowed = {addr: {sel for _, sel, _ in fl} for _, addr, fl in rm.targets}
    tsvals = {}
    for k, v in env.consts.items():
        if k.startswith("halmos_block_timestamp_depth"):
            tsvals[int(k[len("halmos_block_timestamp_depth"):].split("_")[0])] = v
    described = []
    for n, cc in enumerate(seq):
        msg = cc.message
        target = sym.word_value(msg.target, env, memo)
        sender = sym.word_value(msg.caller, env, memo)
        value = sym.word_value(msg.value, env, memo)
        data = sym.bytevec_value(msg.data, env, memo)
        described.append({"target": hex(target), "sender": hex(sender), "value": value, "data": data.hex(), "ts": ts})
        if target not in allowed or data[:4].hex() not in allowed[target]:
            problems.append(("inadmissible-call", f"call #{n}: {hex(target)}::{data[:4].hex()} is not a selected target function"))
        if not rm.sender_ok(sender):
            problems.append(("inadmissible-sender", f"call #{n}: sender {hex(sender)}"))
        w2, res = rm.call(w, ts, target, data, sender, value)
        last = n == len(seq) - 1
        if inv_index is None and last:
            if not e2e.failed(res):
                problems.append(("probe-does-not-replay", f"last call ends with {res.status}"))
            break
        if res.status != "success":
            problems.append(("call-does-not-succeed", f"call #{n} ends with {res.status}: {described[-1]}"))
            break
        w = w2
        ts2 = tsvals.get(n + 1, ts)
        if ts2 < ts:
            problems.append(("timestamp-decreases", f"after call #{n}: {ts} -> {ts2}"))
        ts = ts2
    else:
        if inv_index is not None and not rm.inv_broken(w, ts, inv_index):
            problems.append(("cex-does-not-replay", f"invariant_i{inv_index} holds after {described}"))
    return problems


# ---------------------------------------------------------------- running one case

class NoMerge:
    """harness-side: every state gets a unique identity (state de-duplication disabled)"""

    def __enter__(self):
        import halmos.__main__ as M

        self.M, self.orig = M, M.get_state_id
        counter = itertools.count()
        M.get_state_id = lambda ex: b"unique" + next(counter).to_bytes(8, "big")
        return self

    def __exit__(self, *a):
        self.M.get_state_id = self.orig


GETTERS = {"targetSenders()", "excludeSenders()", "targetContracts()", "excludeContracts()", "targetSelectors()", "excludeSelectors()"}


class TargetLog:
    """harness-side: records which (contract, function) pairs the frontier computation executes and
    which of the candidate senders its sender condition admits"""

    def __enter__(self):
        import z3

        import halmos.__main__ as M

        self.M, self.orig = M, M.run_target_function
        self.calls = set()
        self.senders = {}

        def wrapped(args, ex, addr, abi, fun_info, tx_origin, msg_sender, msg_value, msg_sender_cond=None):
            if fun_info.sig not in GETTERS:
                a = addr.as_long() if hasattr(addr, "as_long") else int(addr)
                self.calls.add((a, fun_info.sig))
                for s_ in SENDERS + [OTHER]:
                    if msg_sender_cond is None:
                        ok = True
                    else:
                        v = z3.simplify(z3.substitute(msg_sender_cond, (msg_sender, z3.BitVecVal(s_, 160))))
                        ok = True if z3.is_true(v) else False if z3.is_false(v) else None
                    self.senders.setdefault(s_, set()).add(ok)
            return self.orig(args, ex, addr, abi, fun_info, tx_origin, msg_sender, msg_value, msg_sender_cond)

        M.run_target_function = wrapped
        return self

    def __exit__(self, *a):
        self.M.run_target_function = self.orig


def run_halmos(case, order=0, nomerge=False):
    cj, others = build(case, order)
    a = e2e.mk_args(invariant_depth=case["depth"], solver_timeout_assertion=30.0)
    with TargetLog() as tl:
        if nomerge:
            with NoMerge():
                r = e2e.run(cj, args=a, others=others)
        else:
            r = e2e.run(cj, args=a, others=others)
    r.target_log = tl
    return cj, r


def verdicts(case, r):
    by = r.by_sig()
    return {i: (by[f"invariant_i{i}()"].exitcode if f"invariant_i{i}()" in by else None) for i in range(len(case["invariants"]))}


def run_case(case, acc=None):
    if case.get("kind") == "chain":
        return run_chain_case(case, acc)
    fails = []
    try:
        cj, r = run_halmos(case)
    except Exception as e:
        return [(["run-raise", type(e).__name__], repr(e)[:300])]
    v = verdicts(case, r)
    if any(x is None for x in v.values()):
        return [(["no-result"], f"{r.warnings()[:3]} {r.stdout[-300:]}")]
    try:
        rm = RefModel(case, cj)
        breaks, probes, complete = rm.explore(case["depth"])
    except (refevm.Unsupported, RuntimeError) as e:
        if acc is not None:
            acc.exclude("reference:" + type(e).__name__)
        return []
    nofilter_targets = not rm.targets
    if nofilter_targets:
        # "No target contracts available": halmos reports an error for the test; nothing to compare
        if acc is not None:
            acc.exclude("no-target-contracts")
        return []
    # (e) filters: the (contract, function) pairs executed and the senders admitted are exactly the
    #     model's (observed at the call of run_target_function)
    if case["depth"] >= 1:
        want = {(addr, sig) for _, addr, fl in rm.targets for sig, _, _ in fl}
        got = r.target_log.calls
        if got != want:
            names = {a_: n_ for n_, a_ in rm.addrs.items()}
            fmt = lambda xs: sorted(f"{names.get(a_, hex(a_))}.{s_}" for a_, s_ in xs)  # noqa: E731
            fails.append((["filters", "target-functions", "extra" if got - want else "missing"], f"explored but not selected: {fmt(got - want)}; selected but not explored: {fmt(want - got)}; filters={case['filters']}"))
        for s_, oks in r.target_log.senders.items():
            if oks != {rm.sender_ok(s_)}:
                fails.append((["filters", "senders"], f"sender {hex(s_)}: halmos admits {sorted(map(str, oks))}, model {rm.sender_ok(s_)}; filters={case['filters']}"))
                break
    # (a) completeness (not applied when halmos flagged a stuck target call: exploration was cut there
    #     and said so; whether such flags appear is C10's business)
    flagged = [m_ for lvl, m_ in r.logs.records if lvl == "ERROR" and m_.startswith("depth=")]
    if flagged and acc is not None:
        acc.count("flagged-incomplete")
    for i, seq in breaks.items():
        if flagged:
            break
        if v[i] != 1:
            fails.append((["missed-break", f"depth:{case['depth']}", f"len:{len(seq)}"], f"invariant_i{i} {case['invariants'][i]} is broken by {seq} but halmos reports exit code {v[i]}"))
    # (b) validity of reported counterexamples; (c) probes
    reported_probe = set()
    for s in r.cap.solved:
        if s["model"] is None or not s["model"].is_valid:
            continue
        if s["probe"]:
            fi = s["ex"].context.message.fun_info
            reported_probe.add((fi.contract_name, fi.sig))
            for tag, d in replay_sequence(rm, s["ex"], s["model"], None, case["depth"]):
                fails.append((["probe", tag], d))
        else:
            i = int(s["fun"].split("invariant_i")[1].split("(")[0])
            for tag, d in replay_sequence(rm, s["ex"], s["model"], i, case["depth"]):
                fails.append((["counterexample", tag], d))
    for (cn, sig), seq in probes.items():
        if "Assertion failure detected in" not in r.stdout:
            fails.append((["probe-not-reported"], f"{cn}.{sig} fails its assertion after {seq}; nothing printed"))
        if all(x == 0 for x in v.values()):
            fails.append((["probe-not-in-verdict"], f"{cn}.{sig} fails its assertion after {seq}; all invariant tests PASS"))
        break
    # (d) metamorphic runs
    mm = case.get("meta")
    if mm in ("order", "nomerge") and (mm == "order" or case["depth"] <= 2):
        try:
            _, r2 = run_halmos(case, order=case["seed"] | 1 if mm == "order" else 0, nomerge=mm == "nomerge")
            v2 = verdicts(case, r2)
            if v2 != v:
                fails.append((["verdict-changes", mm], f"{v} vs {v2} (depth {case['depth']})"))
        except Exception as e:
            fails.append((["run-raise", mm, type(e).__name__], repr(e)[:300]))
    if rm.reads_balance:
        fails = [(["reads-balance"] + list(b), d) for b, d in fails]
    if acc is not None:
        minlen = min((len(s) for s in breaks.values()), default=0)
        fl = case["filters"]
        nonempty_filter = bool(fl and any(fl[k] for k in fl))
        nt = minlen >= 2 or nonempty_filter
        kl = [f"depth:{case['depth']}", "break" if breaks else "no-break", f"minlen:{minlen}" if breaks else "minlen:-", "filters" if nonempty_filter else ("getters-empty" if fl is not None else "no-getters")]
        if probes:
            kl.append("probe-reachable")
        if rm.reads_balance:
            kl.append("reads-balance")
        if not complete:
            kl.append("reference-capped")
        kl.append("halmos:" + "/".join(str(x) for x in v.values()))
        acc.case(case, nt, klass=kl, sample={"targets": case["targets"], "filters": fl, "invariants": case["invariants"], "depth": case["depth"], "reference_breaks": {str(k): s for k, s in breaks.items()}, "halmos": v})
    return fails


# ---------------------------------------------------------------- generator

CONSTS = [0, 1, 2, 3, 5, 100]


def guard_st(nslots, with_arg):
    c = st.sampled_from(CONSTS)
    op = st.sampled_from(["eq", "ne", "lt", "gt", "eq"])
    opts = [
        st.builds(lambda i, o, k: ["slot", i, o, k], st.integers(0, nslots - 1), op, c),
        st.builds(lambda i, o, k: ["slot", i, o, k], st.integers(0, nslots - 1), st.just("eq"), st.sampled_from([0, 1, 2])),
        st.builds(lambda o, k: ["sender", o, k], st.sampled_from(["eq", "ne"]), st.integers(0, 2)),
        st.builds(lambda o, k: ["ts", o, k], st.sampled_from(["lt", "gt"]), st.sampled_from([50, 100])),
        st.builds(lambda o, k: ["value", o, k], st.sampled_from(["eq", "gt", "ne"]), st.sampled_from([0, 1, 5])),
    ]
    if with_arg:
        opts.append(st.builds(lambda o, k: ["arg", o, k], op, c))
    return st.one_of(*opts)


def effect_st(nslots):
    s = st.integers(0, nslots - 1)
    return st.one_of(
        st.builds(lambda i, k: ["set", i, k], s, st.sampled_from([0, 1, 2, 3])),
        st.builds(lambda i, k: ["set", i, k], s, st.sampled_from([1, 2])),
        st.builds(lambda i, k: ["add", i, k], s, st.sampled_from([1, 1, 2])),
        st.builds(lambda i: ["setarg", i], s),
        st.builds(lambda i, j: ["copy", i, j], s, s),
        st.builds(lambda i, j: ["swap", i, j], s, s),
        st.builds(lambda i: ["setsender", i], s),
        st.builds(lambda j, c: ["split", j, (j + 1) % nslots, c], s, st.sampled_from([1, 2, 3, 5, 100])),
    )


def fn_st(nslots):
    def mk(arg, payable, guards, effects, has_assert, ag, noop):
        effects = [e for e in effects if not (e[0] in ("setarg", "split") and not arg)]
        guards = [g for g in guards if not (g[0] == "value" and not payable)]
        # (a function without any effect is a legitimate target: it only lets time pass)
        f = {"arg": arg, "payable": payable, "guards": guards, "effects": [] if noop else (effects or [["add", 0, 1]])}
        if has_assert:
            f["assert"] = ag if not (ag[0] == "value" and not payable) else ["slot", 0, "eq", 3]
        return f

    return st.booleans().flatmap(lambda arg: st.builds(mk, st.just(arg), st.sampled_from([False, False, True]), st.lists(guard_st(nslots, arg), max_size=2), st.lists(effect_st(nslots), min_size=1, max_size=2), st.sampled_from([False] * 7 + [True]), guard_st(nslots, arg), st.sampled_from([False] * 9 + [True])))


def filters_st(names, nf, bump):
    """names: target contract names; nf: {name: number of functions}"""
    sub = lambda xs, mx=2: st.lists(st.sampled_from(xs), max_size=mx, unique=True)  # noqa: E731
    snd = sub([0, 1, 2])
    cons = names + (["TEST"] if bump else [])

    def selmap(allow_test):
        def one(n):
            if n == "TEST":
                return st.just((n, [0]))
            return st.lists(st.integers(0, nf[n]), min_size=1, max_size=2, unique=True).map(lambda idxs: (n, idxs))  # index nf[n] = the view getter

        pool = names + (["TEST"] if (bump and allow_test) else [])
        return st.lists(st.sampled_from(pool).flatmap(one), max_size=2)

    full = st.builds(lambda a, b, c, d, e, f: {"tsend": a, "xsend": b, "tcon": c, "xcon": d, "tsel": e, "xsel": f},
                     snd, snd, sub(cons), sub(cons, 1), selmap(True), selmap(False))
    only_senders = st.builds(lambda a, b: {"tsend": a, "xsend": b, "tcon": [], "xcon": [], "tsel": [], "xsel": []}, snd, snd)
    empty = st.just({"tsend": [], "xsend": [], "tcon": [], "xcon": [], "tsel": [], "xsel": []})
    return st.one_of(st.none(), empty, only_senders, only_senders, full, full, full)


def case_st():
    def mk_targets(nslots, fnsA, fnsB):
        ts = [{"name": "A", "fns": fnsA}]
        if fnsB:
            ts.append({"name": "B", "fns": fnsB})
        return nslots, ts

    def inv_st(nslots, names, bump):
        opts = [st.builds(lambda n, i, o, k: {"contract": n, "slot": i, "cmp": o, "c": k}, st.sampled_from(names), st.integers(0, nslots - 1), st.sampled_from(["ne", "lt", "ne", "lt"]), st.sampled_from([2, 3, 5, 1, 100])),
                st.builds(lambda n, i, o, k: {"contract": n, "slot": i, "cmp": o, "c": k}, st.sampled_from(names), st.integers(0, nslots - 1), st.just("eq"), st.just(0))]
        if bump:
            opts.append(st.builds(lambda k: {"contract": "TEST", "slot": 5, "cmp": "lt", "c": k}, st.sampled_from([1, 2, 3])))
        return st.one_of(*opts)

    def rest(t):
        nslots, targets = t
        names = [x["name"] for x in targets]
        nf = {x["name"]: len(x["fns"]) for x in targets}
        return st.booleans().flatmap(lambda bump: st.builds(
            lambda filters, invs, depth, meta, seed: {"slots": nslots, "targets": targets, "bump": bump, "filters": filters, "invariants": invs, "depth": depth, "meta": meta, "seed": seed},
            filters_st(names, nf, bump), st.lists(inv_st(nslots, names, bump), min_size=1, max_size=2), st.sampled_from([2, 3, 1, 3, 2, 0]), st.sampled_from(["order", "nomerge", None]), st.integers(1, 1 << 20)))

    nslots = st.integers(2, 3)
    return nslots.flatmap(lambda n: st.builds(mk_targets, st.just(n), st.lists(fn_st(n), min_size=1, max_size=4), st.one_of(st.just([]), st.just([]), st.lists(fn_st(n), min_size=1, max_size=2)))).flatmap(rest)


def confluent_st():
    """confluent functions: two functions leave identical storage under different guards over a
    cross-transaction quantity (block.timestamp), optionally behind an enabler call; a later function
    needs that storage together with a timestamp condition that only one of the two histories allows"""
    def mk(enabler, c1, late_first, extra_guard, perm, depth, meta, seed, noise):
        fns = []
        en = [["slot", 2, "eq", 1]] if enabler else []
        if enabler:
            fns.append({"arg": False, "payable": False, "guards": [], "effects": [["set", 2, 1]]})
        # f: only late (ts > c1) / g: any time; both set slot0 = 1
        f = {"arg": False, "payable": False, "guards": en + [["ts", "gt", c1]], "effects": [["set", 0, 1]]}
        g = {"arg": False, "payable": False, "guards": en + extra_guard, "effects": [["set", 0, 1]]}
        # h: needs slot0 == 1 and an early timestamp (ts < c1): reachable only through g
        h = {"arg": False, "payable": False, "guards": [["slot", 0, "eq", 1], ["ts", "lt", c1]], "effects": [["set", 1, 1]]}
        fns += [f, g] if late_first else [g, f]
        fns.append(h)
        if noise:
            fns.insert(perm % len(fns), {"arg": True, "payable": False, "guards": [["arg", "lt", 3]], "effects": [["setarg", 2 if not enabler else 1]] if False else [["add", 2 if not enabler else 0, 0]]})
        return {"slots": 3, "targets": [{"name": "A", "fns": fns}], "bump": False, "filters": None, "invariants": [{"contract": "A", "slot": 1, "cmp": "eq", "c": 0}], "depth": depth, "meta": meta, "seed": seed}

    return st.builds(mk, st.booleans(), st.sampled_from([50, 100]), st.booleans(), st.sampled_from([[], [], [["sender", "ne", 0]]]), st.integers(0, 7), st.sampled_from([3, 2, 3]), st.sampled_from(["order", "nomerge", None]), st.integers(1, 1 << 20), st.booleans())


def permute_st():
    """states that hold the same values in the same set of slots but assigned differently: init sets
    (s_i, s_j) = (a, b), swap exchanges them, a later function needs the exchanged assignment"""
    def mk(ij, ab, both, noise, order, meta, seed):
        i, j = ij
        a, b = ab
        k = 3 - i - j
        fns = [
            {"arg": False, "payable": False, "guards": [], "effects": [["set", i, a], ["set", j, b]]},
            {"arg": False, "payable": False, "guards": [], "effects": [["swap", i, j]]},
            {"arg": False, "payable": False, "guards": [["slot", i, "eq", b]] + ([["slot", j, "eq", a]] if both else []), "effects": [["set", k, 1]]},
        ]
        if noise:
            fns.append({"arg": True, "payable": False, "guards": [["arg", "eq", 5]], "effects": [["add", k, 0]]})
        random.Random(order).shuffle(fns)
        return {"slots": 3, "targets": [{"name": "A", "fns": fns}], "bump": False, "filters": None, "invariants": [{"contract": "A", "slot": k, "cmp": "eq", "c": 0}], "depth": 3, "meta": meta, "seed": seed}

    return st.builds(mk, st.sampled_from([(0, 1), (1, 0), (0, 2), (2, 1)]), st.sampled_from([(1, 2), (2, 1), (3, 5), (1, 100)]), st.booleans(), st.booleans(), st.integers(0, 50), st.sampled_from(["order", "nomerge", None]), st.integers(1, 1 << 20))


def split_st():
    """one target call with two successful outcomes over the same stored symbol (s_j = arg; s_k = 1 if
    arg < c else 2): the frontier holds two states whose constraints on that symbol exclude each other;
    each invariant is broken from exactly one of them"""
    def mk(c, which, extra, depth, meta, seed):
        fns = [{"arg": True, "payable": False, "guards": [], "effects": [["split", 0, 1, c]]}]
        if extra:
            fns.append({"arg": False, "payable": False, "guards": [["slot", 1, "eq", which]], "effects": [["set", 2, 1]]})
        invs = [{"contract": "A", "slot": 1, "cmp": "ne", "c": 1}, {"contract": "A", "slot": 1, "cmp": "ne", "c": 2}]
        if extra:
            invs = [{"contract": "A", "slot": 2, "cmp": "eq", "c": 0}, invs[which - 1]]
        return {"slots": 3, "targets": [{"name": "A", "fns": fns}], "bump": False, "filters": None, "invariants": invs, "depth": depth, "meta": meta, "seed": seed}

    return st.builds(mk, st.sampled_from([1, 3, 5, 100]), st.sampled_from([1, 2]), st.booleans(), st.sampled_from([1, 2, 2]), st.sampled_from([None, "order", "nomerge"]), st.integers(1, 1 << 20))


def chain_st():
    """a target whose two paths end in identical storage layout but differ in a branch on a value that
    is tied to the stored symbol through a chain of `links` equalities over further arguments:
    g(x0..xk){ if (xk < 5) {} else {}; require(x[i] == x[i+1] + 1) for all i; s0 = x0; s1 = 1 }.
    invariant_lo (s0 != k + 1, broken with xk = 1) and invariant_hi (s0 != k + 98, broken with xk = 98)
    are both violated at depth 1"""
    return st.builds(lambda links, seed, meta: {"kind": "chain", "links": links, "seed": seed, "meta": meta}, st.integers(1, 4), st.integers(1, 1 << 20), st.sampled_from([None, "nomerge"]))


def run_chain_case(case, acc=None):
    k = case["links"]
    body = [["if", ["op2", "LT", e2e.arg(k), ["c", 5]], [["mstore", 0x80, ["c", 1]]], [["mstore", 0x80, ["c", 2]]]]]
    for i in range(k):
        body.append(["if", ["op2", "EQ", e2e.arg(i), ["op2", "ADD", e2e.arg(i + 1), ["c", 1]]], [], [["revert", 0, 0]]])
    body += [["sstore", ["c", 0], e2e.arg(0)], ["sstore", ["c", 1], ["c", 1]], ["stop"]]
    sig = "g(" + ",".join(["uint256"] * (k + 1)) + ")"
    tfns = [{"sig": sig, "body": body}] + [dict(g) for g in GETTER_FNS]
    tcj, tcreation, _ = e2e.artifact("A", tfns)
    setup = [["create", "CREATE", ["c", 0], tcreation.hex(), ["c", 0], 0x3E0], ["sstore", ["c", ADDR_SLOT], ["mload", 0x3E0]], ["stop"]]
    fake = {"targets": [{"name": "A", "fns": []}]}
    fns = [{"sig": "setUp()", "body": setup}]
    for i, c in enumerate((k + 1, k + 98)):
        fns.append({"sig": f"invariant_i{i}()", "body": inv_body({"contract": "A", "slot": 0, "cmp": "ne", "c": c}, fake)})
    cj, _, _ = e2e.artifact("T", fns)
    a = e2e.mk_args(invariant_depth=1, solver_timeout_assertion=30.0)
    fails = []
    try:
        if case.get("meta") == "nomerge":
            with NoMerge():
                r = e2e.run(cj, args=a, others={"A": tcj})
        else:
            r = e2e.run(cj, args=a, others={"A": tcj})
    except Exception as e:
        return [(["run-raise", type(e).__name__], repr(e)[:300])]
    by = r.by_sig()
    for i, w in enumerate((1, 98)):
        tr = by.get(f"invariant_i{i}()")
        if tr is None or tr.exitcode != 1:
            fails.append((["chain", "missed-break", f"links:{k}"], f"g({', '.join(str(w + k - j) for j in range(k + 1))}) breaks invariant_i{i} (s0 != {w + k}) after one call; halmos reports {None if tr is None else tr.exitcode}"))
    if acc is not None:
        acc.case(case, k >= 2, klass=["chain", f"links:{k}"])
    return fails


def balance_st():
    """targets that read their own balance after payable calls (halmos does not move the value of
    top-level invariant calls: known finding, every bucket of this family is prefixed reads-balance)"""
    def mk(c, two_step, seed):
        fns = [
            {"arg": False, "payable": True, "guards": [["value", "gt", 0]] if two_step else [], "effects": [["add", 0, 1]]},
            {"arg": False, "payable": False, "guards": [["selfbal", "gt", c]], "effects": [["set", 1, 1]]},
        ]
        return {"slots": 3, "targets": [{"name": "A", "fns": fns}], "bump": False, "filters": None, "invariants": [{"contract": "A", "slot": 1, "cmp": "eq", "c": 0}], "depth": 2, "meta": None, "seed": seed}

    return st.builds(mk, st.sampled_from([0, 1, 5]), st.booleans(), st.integers(1, 1 << 20))


def shards(tier):
    n = 40 if tier == "quick" else 600
    return [{"mode": "hyp", "n": n} for _ in range(14)] + [{"mode": "confluent", "n": n}, {"mode": "permute", "n": n // 2}, {"mode": "balance", "n": 6}, {"mode": "split", "n": n // 2}, {"mode": "chain", "n": 8}]


def run_shard(spec, seed, tier):
    acc = Acc()

    def body(case):
        for b, d in run_case(case, acc):
            acc.fail(b, case, d)

    run_cases({"confluent": confluent_st, "permute": permute_st, "hyp": case_st, "balance": balance_st, "split": split_st, "chain": chain_st}[spec["mode"]](), body, spec["n"], seed)
    return acc


def replay(case):
    return [{"bucket": b, "detail": d} for b, d in run_case(case)]
