"""C08 — storage reads return the last write to the same slot; no aliasing.

Location expressions  Loc ::= Scalar(n) | Map(Loc, key, keywidth) | Arr(Loc) + idx | Loc + off
with concrete or symbolic keys/indices (calldata words masked to tiny colliding domains, or free),
each rendered in several spellings: runtime KECCAK256 over memory (256-bit and odd-width keys),
PUSH32 of the real hash constant plus an offset (inside/outside/straddling the 2^16 blocks of the
precomputed tables, negative offsets), additions in all association orders.  Programs are
sequences of <= 7 stores/loads (SSTORE/SLOAD and TSTORE/TLOAD) whose loaded values are returned;
both storage layouts.  Oracle: reference EVM flat storage with real keccak, via the C01 comparison.
A second family runs two transactions through SEVM.run_message: persistent storage is kept,
transient storage starts empty.
"""

from __future__ import annotations

import random

from eth_hash.auto import keccak

from vfw import diff, gen, sym, symeval
from vfw.hyp import ddmin, run_cases, st
from vfw.runner import Acc

PROPERTY = "C08"
LEVEL = "exploration"
RULE = (
    "case = (sequence of <=7 stores/loads over generated location expressions in several spellings, storage layout, "
    "transient or persistent; inputs: 6 valuations of the key/index words from a tiny colliding domain + random + z3-guided). "
    "Non-trivial = >=2 stores whose locations can coincide for one valuation and differ for another (symbolic key/index), "
    "or one location written in two spellings; distinct by (program, layout, input). A third of the programs fork on the "
    "equality of two locations before the read-back; a quarter contain a sub-call that fails on every side of a fork between two operations."
)
ASSUMPTIONS = [
    "every base slot has one type, as in compiler output: the base slot under a mapping, under a dynamic array and a scalar slot are never the same number within one program (the solidity layout files locations by (slot, keys) and does not model a slot that is both)",
    "solidity layout: a symbolic *base* slot is documented unsupported (stuck path) - counted, not compared",
    "array indices / struct offsets added to a hash are < 2^64 (documented: hash values are assumed <= 2^256-2^64 so that reasonable offsets do not wrap)",
    "a *concrete* offset added to a concrete hash is < 2^16 (OffsetMap(offset_bits=16): 'keys related by small offsets'); symbolic indices are free up to 2^64",
    "a hash *constant* is only used where the property promises recognition: precomputed tables, or computed at runtime earlier on the path",
    "hash assumptions (non-zero, <= 2^256-2^64, injective) hold for real keccak on generated data; offsets added to hashes are < 2^64 or wrap-around 'negative' small values",
    "symbolic-storage mode is checked by metamorphic relations only (read-after-write, repeated read)",
]
WATCHDOG_S = {"quick": 2400, "thorough": 10800}

MANIFEST = {
    "technique": "differential testing of generated store/load sequences over a grammar of Solidity-style location expressions in multiple spellings against a flat-storage reference EVM with real keccak; both storage layouts; two-transaction variant for transient storage",
    "text": "Generated programs write and read storage through scalars, mappings (256-bit and packed odd-width keys), dynamic arrays, struct offsets and their nestings, with symbolic keys/indices drawn from tiny colliding domains and with each location spelled as a runtime hash, as the precomputed hash constant plus an offset (including offsets that cross a 2^16 block of the hash value and negative offsets) and with reordered additions; every loaded value is returned and must equal the reference EVM's flat storage for every concrete input admitted by the reported path, in the solidity and generic layouts, for SSTORE/SLOAD and TSTORE/TLOAD, across two transactions, and on every sibling path that resumes after a sub-call which forked and failed.",
    "note": "trusts refevm + symeval; unsupported location shapes that halmos reports as stuck are counted and skipped",
}

MAIN = 0x1000
M256 = (1 << 256) - 1


def h(b: bytes) -> int:
    return int.from_bytes(keccak(b), "big")


def w32(v):
    return (v & M256).to_bytes(32, "big")


# ---------------------------------------------------------------- location grammar -> DSL expression

def idx_st():
    return st.one_of(
        st.integers(0, 3).map(lambda v: ["c", v]),
        st.integers(0, gen.NW - 1).map(lambda i: ["op2", "AND", ["cd", i], ["c", 3]]),
        st.integers(0, gen.NW - 1).map(lambda i: ["op2", "AND", ["cd", i], ["c", 1]]),
        # free index, but below 2^64: halmos documents that hash + offset is assumed not to wrap
        # (hash values <= 2^256 - 2^64, "reasonable offsets"), so larger indices are outside the model
        st.integers(0, gen.NW - 1).map(lambda i: ["op2", "AND", ["cd", i], ["c", (1 << 64) - 1]]),
        st.sampled_from([2000, 65535, 65536, 70000, (1 << 64) - 1]).map(lambda v: ["c", v]),
    )


def key_st():
    return st.one_of(
        st.integers(0, 3).map(lambda v: ["c", v]),
        st.integers(0, gen.NW - 1).map(lambda i: ["op2", "AND", ["cd", i], ["c", 3]]),
        st.integers(0, gen.NW - 1).map(lambda i: ["cd", i]),
        st.just(["env", "CALLER"]),
    )


def add_forms(hx, ix, form, one=1):
    """h + i in several association orders"""
    if form == 0:
        return ["op2", "ADD", hx, ix]
    if form == 1:
        return ["op2", "ADD", ix, hx]
    if form == 2:
        return ["op2", "ADD", ["op2", "ADD", hx, ["c", one]], ix]
    if form == 3:
        return ["op2", "ADD", hx, ["op2", "ADD", ix, ["c", one]]]
    if form == 4:  # a[n-1] idiom: h + (i - 1)
        return ["op2", "ADD", hx, ["op2", "SUB", ix, ["c", 1]]]
    return ["op2", "SUB", ["op2", "ADD", hx, ix], ["c", 1]]


def loc_st(depth=2):
    """location *template*: keys and indices are holes, instantiated several times below"""
    scalar = st.integers(0, 4).map(lambda v: ["c", v])
    hole = st.integers(0, 3).map(lambda j: ["hole", j])

    def ext(base):
        return st.one_of(
            st.builds(lambda k, b: ["mapkeyx", k, b], hole, base),
            st.builds(lambda k, b: ["mapkeyx", k, b], hole, base),
            st.builds(lambda k, b, w: ["mapkeyw", k, b, w], hole, base, st.sampled_from([1, 20, 31])),
            st.builds(lambda b, i, f: add_forms(["arrx", b], i, f), base, hole, st.integers(0, 5)),
            st.builds(lambda b, o: ["op2", "ADD", b, ["c", o]], base, st.integers(1, 3)),
        )

    return st.recursive(scalar, ext, max_leaves=depth + 1)


CONC = [0, 1, 2, 3, 2000, 40000, 65530]  # concrete offsets stay inside the 16-bit window of the hash reverse lookup


def fill_st():
    """a filler for the 4 holes of a template: concrete values from a small set or masked calldata words"""
    one = st.one_of(
        st.sampled_from(CONC).map(lambda v: ["c", v]),
        st.sampled_from(CONC).map(lambda v: ["c", v]),
        st.integers(0, gen.NW - 1).map(lambda i: ["op2", "AND", ["cd", i], ["c", 3]]),
        st.integers(0, gen.NW - 1).map(lambda i: ["op2", "AND", ["cd", i], ["c", (1 << 64) - 1]]),
        st.integers(0, gen.NW - 1).map(lambda i: ["op2", "AND", ["cd", i], ["c", (1 << 17) - 1]]),
    )
    return st.lists(one, min_size=4, max_size=4)


def _has_ctor(e):
    return isinstance(e, list) and (e[0] in ("mapkeyx", "mapkeyw", "arrx") or any(_has_ctor(x) for x in e[1:] if isinstance(x, list)))


def _shift(e, d):
    if e[0] == "c":
        return ["c", e[1] + d]
    if e[0] == "op2":
        return ["op2", e[1], _shift(e[2], d), e[3]] if e[2][0] in ("c", "op2") else ["op2", e[1], e[2], _shift(e[3], d)]
    return e


def rebase_by_type(t):
    """A Solidity contract gives every base slot one type.  Templates are built over base slots 0..4;
    the slot under a mapping is moved to 8.., the slot under a dynamic array to 16.., so that the
    locations of one program never use the same base slot as a mapping *and* as an array (or as a
    scalar), a combination no compiler output contains and the solidity layout does not model."""
    def go(e):
        # -> (new expression, True if e is still the bare scalar base)
        k = e[0]
        if k == "c":
            return e, True
        if k in ("mapkeyx", "mapkeyw"):
            b, bare = go(e[2])
            if bare:
                b = _shift(b, 8)
            return [k, e[1], b] + e[3:], False
        if k == "arrx":
            b, bare = go(e[1])
            if bare:
                b = _shift(b, 16)
            return ["arrx", b], False
        if k == "op2":
            x, y = e[2], e[3]
            if _has_ctor(x):
                return ["op2", e[1], go(x)[0], y], False
            if _has_ctor(y):
                return ["op2", e[1], x, go(y)[0]], False
            return e, all(z[0] in ("c", "op2") for z in (x, y))  # scalar base + constant offset
        return e, False

    return go(t)[0]


def instantiate(t, fill):
    if t[0] == "hole":
        return fill[t[1]]
    return [instantiate(x, fill) if isinstance(x, list) else x for x in t]


def const_spelling(loc, rng_choice):
    """if loc is fully concrete, return the PUSH32 spelling: real slot value split as hash-const + delta"""
    v = concrete_value(loc)
    if v is None:
        return None
    return v


def concrete_value(e):
    """evaluate a closed location expression with real keccak (None if it depends on inputs)"""
    k = e[0]
    if k == "c":
        return e[1] & M256
    if k == "op2" and e[1] in ("ADD", "SUB", "AND"):
        a, b = concrete_value(e[2]), concrete_value(e[3])
        if a is None or b is None:
            return None
        return {"ADD": (a + b) & M256, "SUB": (a - b) & M256, "AND": a & b}[e[1]]
    if k == "mapkeyx":
        a, b = concrete_value(e[1]), concrete_value(e[2])
        if a is None or b is None:
            return None
        return h(w32(a) + w32(b))
    if k == "mapkeyw":
        a, b = concrete_value(e[1]), concrete_value(e[2])
        if a is None or b is None:
            return None
        w = e[3]
        return h((a & ((1 << (8 * w)) - 1)).to_bytes(w, "big") + w32(b))
    if k == "arrx":
        a = concrete_value(e[1])
        return None if a is None else h(w32(a))
    return None


HASHK = ("mapkeyx", "mapkeyw", "arrx")


def hash_values(e, acc=None):
    """values of all closed hash sub-expressions that are still in runtime form"""
    acc = set() if acc is None else acc
    if e[0] in HASHK:
        v = concrete_value(e)
        if v is not None:
            acc.add(v)
    for x in e[1:]:
        if isinstance(x, list):
            hash_values(x, acc)
    return acc


_PRE = None


def precomputed():
    """hash values halmos documents as precomputed (its own tables define the *domain* of the
    constant spelling, they are not used as an oracle)"""
    global _PRE
    if _PRE is None:
        from halmos.hashes import keccak256_256, keccak256_512

        _PRE = set(keccak256_256) | set(keccak256_512)
    return _PRE


def respell(e, mode, allowed):
    """replace closed hash sub-expressions by PUSH32 constants where the property promises
    recognition: the hash is in the precomputed tables or was computed at runtime earlier on the
    path (`allowed`).  mode 1: hashes only; mode 2: also fold hash +- offset sums."""
    if mode == 0:
        return e
    k = e[0]
    if k in HASHK:
        v = concrete_value(e)
        if v is not None and v in allowed:
            return ["c", v]
        if k == "arrx":
            return ["arrx", respell(e[1], mode, allowed)]
        return [k, e[1], respell(e[2], mode, allowed)] + e[3:]
    if k == "op2":
        a, b = respell(e[2], mode, allowed), respell(e[3], mode, allowed)
        def small(x):
            v = x[1] & M256
            return v < (1 << 16) or v > M256 - (1 << 16)

        # fold hash +- offset into one constant only inside the documented 16-bit offset window
        # of the hash reverse lookup (OffsetMap(offset_bits=16))
        if mode == 2 and a[0] == "c" and b[0] == "c" and e[1] in ("ADD", "SUB") and (small(a) or small(b)):
            return ["c", concrete_value(["op2", e[1], a, b])]
        return ["op2", e[1], a, b]
    return e


def val_st():
    return st.one_of(st.integers(1, 255).map(lambda v: ["c", v]), st.integers(0, gen.NW - 1).map(lambda i: ["cd", i]), st.integers(1, 1 << 200).map(lambda v: ["c", v]))


def program_st():
    """list of ops over a small set of locations (reuse of locations is what matters)"""
    def mk(locs, ops, transient, layout, seed):
        prog = []
        allowed = set(precomputed())
        for (kind, li, spell, val) in ops:
            loc = respell(locs[li % len(locs)], spell, allowed)
            prog.append([kind, loc, val])
            allowed |= hash_values(loc)  # computed at runtime from here on
        case = {"ops": prog, "transient": transient, "layout": layout, "seed": seed}
        locs_used = [o[1] for o in prog if has_symbolic(o[1])]
        if seed % 3 == 0 and len(locs_used) >= 2:
            case["fork"] = random.Random(seed).sample(locs_used, 2)
        if seed % 4 == 1 and len(prog) >= 2:
            # a sub-call that forks on its calldata and fails on every side, placed between two ops:
            # the caller resumes on each of the failing paths with its storage as it was before the
            # call, and what one of those paths stores afterwards is that path's alone
            case["failcall"] = 1 + seed % (len(prog) - 1)
        return case

    op = st.tuples(st.sampled_from(["store", "store", "load"]), st.integers(0, 7), st.integers(0, 2), val_st())
    # pool of locations = every template instantiated with every filler: siblings that coincide
    # for some valuations (same template, concrete vs symbolic key/index) are the interesting pairs
    pool = st.builds(lambda ts, fs: [instantiate(rebase_by_type(t), f) for t in ts for f in fs], st.lists(loc_st(), min_size=1, max_size=2), st.lists(fill_st(), min_size=2, max_size=3))
    return st.builds(mk, pool, st.lists(op, min_size=2, max_size=7), st.booleans(), st.sampled_from(["solidity", "solidity", "generic"]), st.integers(0, 1 << 30))


FAILER = 0xFA11
# writes its own storage and then fails, on either side of a branch on its first calldata word
FAILER_CODE = gen.compile_body([["if", ["op2", "EQ", ["cd", 0], ["c", 1]], [["sstore", ["c", 0], ["c", 5]], ["revert", 0, 0]], [["tstore", ["c", 0], ["c", 6]], ["invalid"]]]])


def compile_case(case):
    body = []
    out = 0x200
    n = 0
    S, L = ("tstore", "tload") if case["transient"] else ("sstore", "sload")
    for i, (kind, loc, val) in enumerate(case["ops"]):
        if case.get("failcall") == i:
            body.append(["mstore", 0x1A0, ["cd", 0]])
            body.append(["call", "CALL", ["c", FAILER], ["c", 0], 0x1A0, 32, 0, 0, 0x1C0])
        if kind == "store":
            body.append([S, loc, val])
        else:
            body.append(["mstore", out + 32 * n, [L, loc]])
            n += 1
    if case.get("fork"):
        # a branch on the equality of two locations (empty arms): whatever the engine learns about
        # the keys on one side must not be used on the other; the read-back below runs on both sides
        la, lb = case["fork"]
        body.append(["if", ["op2", "EQ", la, lb], [["mstore", 0x1E0, ["c", 1]]], [["mstore", 0x1E0, ["c", 2]]]])
    # final read-back of every location used, in program order
    for kind, loc, val in case["ops"]:
        body.append(["mstore", out + 32 * n, [L, loc]])
        n += 1
    body.append(["return", out, 32 * n])
    return gen.compile_body(body)


_ARGS = {}


def args(layout):
    if layout not in _ARGS:
        _ARGS[layout] = sym.base_config(depth=20000, storage_layout=layout)
    return _ARGS[layout]


def build_world(case):
    accounts = [{"addr": MAIN, "code": compile_case(case).hex(), "balance": 0}]
    if case.get("failcall"):
        accounts.append({"addr": FAILER, "code": FAILER_CODE.hex(), "balance": 0})
    return {
        "accounts": accounts,
        "target": MAIN, "cdlen": 32 * gen.NW, "cdwords": case.get("seed", 0) % 2 == 0,
        "caller": "sym", "origin": 1, "value": 0,
    }


def has_symbolic(e):
    if e[0] in ("cd", "env"):
        return True
    return any(isinstance(x, list) and has_symbolic(x) for x in e[1:])


def known_shape(case):
    """shapes of the two recorded generic-layout findings (see known_findings.json)"""
    if case["layout"] == "generic" and "'SUB'" in repr(case["ops"]):
        return ["generic-negative-offset"]
    if case["layout"] == "generic" and any(m_ in repr(case["ops"]) for m_ in ("['c', 3]]", "['c', 1]]")) and "'AND'" in repr(case["ops"]):
        return ["generic-narrow-mask-index"]
    return []


def run_case(case, acc=None):
    world = build_world(case)
    rng = random.Random(case.get("seed", 0))
    inputs = case.get("inputs")
    if not inputs:
        inputs = diff.boundary_inputs(world, rng, 3)
        for _ in range(4):  # tiny colliding domain
            words = [rng.choice([0, 1, 2, 3, 2000, 40000, 65530]) for _ in range(gen.NW)]
            inputs.append({"cd": b"".join(w.to_bytes(32, "big") for w in words).hex(), "caller": rng.choice([0, 1, 2, 3]), "origin": 1, "value": 0, "bal": {}})
    r = diff.check_world(world, inputs, args(case["layout"]), opts={"probe_storage": False}, guided=not case.get("inputs"))
    pre = known_shape(case)
    fails = [(pre + [case["layout"], "transient" if case["transient"] else "persistent"] + b, d) for b, d in r["fails"]]
    if acc is not None:
        if r.get("crash"):
            acc.exclude("crash:" + r["crash"])
        nstores = sum(1 for o in case["ops"] if o[0] == "store")
        symb = any(has_symbolic(o[1]) for o in case["ops"])
        spellings = len({repr(o[1]) for o in case["ops"]}) > len({repr(concrete_value(o[1])) for o in case["ops"] if concrete_value(o[1]) is not None}) and any(concrete_value(o[1]) is not None for o in case["ops"])
        nt = r["stats"]["covered"] > 0 and nstores >= 2 and (symb or spellings)
        acc.case(case, nt, klass=[case["layout"], "transient" if case["transient"] else "persistent", "symbolic-keys" if symb else "concrete-keys"] + (["two-spellings"] if spellings else []) + (["stuck"] if r["stats"]["stuck_paths"] else []) + (["failcall"] if case.get("failcall") else []),
                 sample={"ops": case["ops"], "layout": case["layout"], "stats": r["stats"]})
        for k in ("inputs", "covered", "uncovered", "guided", "stuck_paths"):
            acc.extra["n_" + k] = acc.extra.get("n_" + k, 0) + r["stats"].get(k, 0)
    return fails


# ---------------------------------------------------------------- two transactions (transient reset, persistent kept)

def run_two_tx(case, acc=None):
    """tx1 stores v1 at slot s (persistent + transient), tx2 loads both"""
    from halmos.sevm import CallContext, Message, Path
    from halmos.__main__ import mk_solver
    from halmos.utils import EVM as HEVM
    from halmos.bytevec import ByteVec
    import z3

    slot, v = case["slot"], case["val"]
    prog = gen.compile_body([
        ["if", ["op2", "EQ", ["cd", 0], ["c", 1]],
         [["sstore", ["c", slot], ["c", v]], ["tstore", ["c", slot], ["c", v + 1]], ["mstore", 0, ["tload", ["c", slot]]], ["return", 0, 32]],
         [["mstore", 0, ["sload", ["c", slot]]], ["mstore", 32, ["tload", ["c", slot]]], ["return", 0, 64]]],
        ["stop"]])
    world = {"accounts": [{"addr": MAIN, "code": prog.hex(), "balance": 0}], "target": MAIN, "cdlen": 32, "cd_concrete": (1).to_bytes(32, "big").hex(), "caller": 1, "origin": 1, "value": 0}
    a = args(case["layout"])
    sevm, ex0 = sym.mk_world(world, a)
    exs = list(sevm.run(ex0))
    fails = []
    if len(exs) != 1 or sym.outcome(exs[0]) != "success":
        return [(["two-tx", "tx1"], f"{[sym.outcome(e) for e in exs]}")]
    post = exs[0]
    d1 = sym.bytevec_value(post.context.output.data, symeval.Env())
    if int.from_bytes(d1, "big") != v + 1:
        fails.append((["two-tx", "tload-same-tx"], d1.hex()))
    msg = Message(target=sym.con_addr(MAIN), caller=z3.BitVecVal(1, 160), origin=z3.BitVecVal(1, 160), value=z3.BitVecVal(0, 256), data=ByteVec((2).to_bytes(32, "big")), call_scheme=HEVM.CALL)
    path = Path(mk_solver(a))
    path.extend_path(post.path)
    exs2 = list(sevm.run_message(post, msg, path))
    if len(exs2) != 1 or sym.outcome(exs2[0]) != "success":
        return fails + [(["two-tx", "tx2"], f"{[sym.outcome(e) for e in exs2]}")]
    env = symeval.Env({}, default_array=lambda n: symeval.ArrVal({}, 0) if n.endswith("_00") else None)
    symeval.eval_conditions(list(exs2[0].path.conditions), env)
    d2 = sym.bytevec_value(exs2[0].context.output.data, env)
    sv, tv = int.from_bytes(d2[:32], "big"), int.from_bytes(d2[32:], "big")
    if sv != v:
        fails.append((["two-tx", "persistent-lost", case["layout"]], f"sload in tx2 = {sv:#x}, stored {v:#x}"))
    if tv != 0:
        fails.append((["two-tx", "transient-survives", case["layout"]], f"tload in tx2 = {tv:#x}"))
    if acc is not None:
        acc.case(case, True, klass=["two-tx", case["layout"]])
    return fails


# ---------------------------------------------------------------- structural collisions (small exhaustive-ish family)

SHAPES = {
    "scalar": lambda p: ["c", p[0]],
    "map": lambda p: ["mapkeyx", ["c", p[1]], ["c", p[0]]],
    "mapmap": lambda p: ["mapkeyx", ["c", p[2]], ["mapkeyx", ["c", p[1]], ["c", p[0]]]],
    "arr": lambda p: ["op2", "ADD", ["arrx", ["c", p[0]]], ["c", p[1]]],
    "arrarr": lambda p: ["op2", "ADD", ["arrx", ["op2", "ADD", ["arrx", ["c", p[0]]], ["c", p[1]]]], ["c", p[2]]],
    "maparr": lambda p: ["op2", "ADD", ["arrx", ["mapkeyx", ["c", p[1]], ["c", p[0]]]], ["c", p[2]]],
    "arrmap": lambda p: ["mapkeyx", ["c", p[2]], ["op2", "ADD", ["arrx", ["c", p[0]]], ["c", p[1]]]],
    "mapw20": lambda p: ["mapkeyw", ["c", p[1]], ["c", p[0]], 20],
    "member": lambda p: ["op2", "ADD", ["mapkeyx", ["c", p[1]], ["c", p[0]]], ["c", p[2]]],
}


def pair_case(rng):
    names = sorted(SHAPES)
    a, b = rng.choice(names), rng.choice(names)
    pa = [rng.randrange(0, 6) for _ in range(3)]
    pb = [rng.choice(pa + [rng.randrange(0, 6)]) for _ in range(3)]
    la, lb = rebase_by_type(SHAPES[a](pa)), rebase_by_type(SHAPES[b](pb))
    ops = [["store", la, ["c", 0xA1]], ["store", lb, ["c", 0xB2]], ["load", la, ["c", 0]], ["load", lb, ["c", 0]]]
    return {"ops": ops, "transient": rng.random() < 0.3, "layout": rng.choice(["solidity", "generic", "generic"]), "seed": rng.randrange(1 << 30), "pair": [a, b]}


# ---------------------------------------------------------------- symbolic storage (metamorphic)

def eval_loc(e, words, caller):
    """concrete slot of a location expression under a valuation (own evaluator, real keccak)"""
    k = e[0]
    if k == "c":
        return e[1] & M256
    if k == "cd":
        return words[e[1]]
    if k == "env":
        return caller
    if k == "op2":
        a, b = eval_loc(e[2], words, caller), eval_loc(e[3], words, caller)
        return {"ADD": (a + b) & M256, "SUB": (a - b) & M256, "AND": a & b}[e[1]]
    if k == "mapkeyx":
        return h(w32(eval_loc(e[1], words, caller)) + w32(eval_loc(e[2], words, caller)))
    if k == "mapkeyw":
        w = e[3]
        return h((eval_loc(e[1], words, caller) & ((1 << (8 * w)) - 1)).to_bytes(w, "big") + w32(eval_loc(e[2], words, caller)))
    if k == "arrx":
        return h(w32(eval_loc(e[1], words, caller)))
    raise ValueError(e)


def run_symbolic_storage(case, acc=None):
    """storage of the account is made symbolic (as svm.enableSymbolicStorage does); relations:
    a load returns the last value stored to the same slot; loads of a never-written slot agree
    with each other whatever was stored elsewhere in between"""
    import z3
    from vfw import symeval

    world = build_world(dict(case, transient=False))
    a = args(case["layout"])
    sevm, ex0 = sym.mk_world(world, a)
    for sd in ex0.storage.values():
        sd.symbolic = True
    try:
        exs = list(sevm.run(ex0))
    except Exception as e:
        if acc is not None:
            acc.exclude("crash:" + type(e).__name__)
        return []
    rng = random.Random(case.get("seed", 0))
    fails = []
    nloads = sum(1 for o in case["ops"] if o[0] == "load") + len(case["ops"])
    for trial in range(5):
        words = [rng.choice([0, 1, 2, 3, 2000, 40000]) for _ in range(gen.NW)]
        caller = rng.choice([0, 1, 2, 3])
        inp = {"cd": b"".join(w.to_bytes(32, "big") for w in words).hex(), "caller": caller, "origin": 1, "value": 0, "bal": {}}
        # reference with unknown initial contents
        store, expect = {}, []
        for kind, loc, val in case["ops"]:
            slot = eval_loc(loc, words, caller)
            if kind == "store":
                store[slot] = eval_loc(val, words, caller)
            else:
                expect.append(store.get(slot, ("init", slot)))
        for kind, loc, val in case["ops"]:
            slot = eval_loc(loc, words, caller)
            expect.append(store.get(slot, ("init", slot)))
        for ex in exs:
            if sym.outcome(ex) != "success":
                continue
            env = diff.mk_env(world, inp)
            salt = trial

            def darr(name, salt=salt):
                return symeval.ArrVal({}, lambda key, n=name: (hash((n, key, salt)) * 2654435761 + 12345) % (1 << 200) + 7)

            env.default_array = darr
            env.default_const = lambda name, sort: ((hash((name, salt)) * 40503 + 977) % (1 << 200) + 11) if name.startswith("storage_") else None
            try:
                ok, _, _ = symeval.eval_conditions(list(ex.path.conditions), env)
                if not ok:
                    continue
                data = sym.bytevec_value(ex.context.output.data, env)
            except (symeval.Unbound, NotImplementedError):
                continue
            got = [int.from_bytes(data[32 * i : 32 * i + 32], "big") for i in range(len(expect))]
            seen_init = {}
            for i, (g, e) in enumerate(zip(got, expect)):
                if isinstance(e, tuple):
                    if e[1] in seen_init and seen_init[e[1]] != g:
                        fails.append((["symbolic-storage", case["layout"], "unwritten-slot-changes"], f"loads of never-written slot {e[1]:#x} disagree: {seen_init[e[1]]:#x} vs {g:#x} (load #{i}) ops={case['ops']} input={inp}"))
                        break
                    seen_init[e[1]] = g
                elif g != e:
                    fails.append((["symbolic-storage", case["layout"], "read-after-write"], f"load #{i} got {g:#x} expected {e:#x} ops={case['ops']} input={inp}"))
                    break
        if fails:
            break
    pre = known_shape(case)
    if pre:
        # same root causes as in the concrete-storage mode: filed under the same signatures
        fails = [(pre + [case["layout"]] + b, d) for b, d in fails]
    if acc is not None:
        nst = sum(1 for o in case["ops"] if o[0] == "store")
        acc.case(dict(case, symst=True), nst >= 1 and len(exs) > 0, klass=["symbolic-storage", case["layout"]])
    return fails


def shards(tier):
    n = 250 if tier == "quick" else 3000
    return [{"mode": "prog", "n": n} for _ in range(11)] + [{"mode": "symst", "n": n} for _ in range(2)] + [{"mode": "pairs", "n": 5 * n} for _ in range(2)] + [{"mode": "twotx"}]


def run_shard(spec, seed, tier):
    acc = Acc()
    if spec["mode"] == "twotx":
        rng = random.Random(seed)
        for layout in ("solidity", "generic"):
            for slot in (0, 1, 5, 1 << 200):
                case = {"twotx": True, "layout": layout, "slot": slot, "val": rng.randrange(1, 1 << 128)}
                for b, d in run_two_tx(case, acc):
                    acc.fail(b, case, d)
        return acc

    if spec["mode"] == "pairs":
        rng = random.Random(seed)
        for _ in range(spec["n"]):
            case = pair_case(rng)
            for b, d in run_case(case, acc):
                acc.fail(["pair"] + b, case, d)
        return acc
    if spec["mode"] == "symst":

        def body2(case):
            case = dict(case, symst=True)
            for b, d in run_symbolic_storage(case, acc):
                acc.fail(b, case, d)

        run_cases(program_st(), body2, spec["n"], seed)
        return acc

    def body(case):
        for b, d in run_case(case, acc):
            acc.fail(b, case, d)

    run_cases(program_st(), body, spec["n"], seed)
    return acc


def replay(case):
    if case.get("symst"):
        return [{"bucket": b, "detail": d} for b, d in run_symbolic_storage(case)]
    f = run_two_tx(case) if case.get("twotx") else run_case(case)
    if case.get("pair"):
        f = [(["pair"] + b, d) for b, d in f]
    return [{"bucket": b, "detail": d} for b, d in f]


def shrink(case, same):
    if case.get("twotx"):
        return case
    ops = ddmin(case["ops"], lambda x: same(dict(case, ops=x)))
    return dict(case, ops=ops)
