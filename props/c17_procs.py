"""C17 — solver subprocess lifecycle is safe under every schedule.

(i) controlled schedules (vfw/simsched.py): halmos.processes runs on shimmed `threading`, `Popen`,
    `psutil` and an inline cancellation pool; real threads are serialised by a baton and the
    interleaving of {client operations: submit / shutdown(wait=False|True) / result, worker thread
    steps, process exit, communicate() timeout} is a generated list of integers.  1-2 client
    threads, 1-4 jobs.  Oracle (invariants over the history):
      V1  a submit that starts after a shutdown call has returned raises ShutdownError;
      V2  once a shutdown call has returned and every thread has run as far as it can, no
          simulated process is alive;
      V3  after all processes have exited: every client operation returned, every worker thread
          ended without an escaping exception, every accepted job is done (result or exception
          delivered, exactly once);
      V4  a job whose time limit fired raises TimeoutExpired from result() and carries no output.
(ii) real subprocesses: random job sets (echo / sleep / a shell spawning a child), random time
    limits, shutdown(wait=False) at a random moment from another thread; afterwards no descendant
    process of the harness is alive, every accepted future is done, timed-out jobs raise
    TimeoutExpired, and solve_low_level maps a hanging solver to `unknown`.
"""

from __future__ import annotations

import os
import subprocess
import sys
import threading
import time

from vfw import simsched
from vfw.hyp import run_cases, st
from vfw.runner import Acc

PROPERTY = "C17"
LEVEL = "exploration"
RULE = (
    "case = (client threads with operation lists over 1-4 jobs, schedule = list of <=60 integers choosing the next thread or "
    "environment event) for the simulated part, (job kinds, time limits, shutdown moment) for the real-subprocess part. "
    "Non-trivial = a shutdown is issued while at least one job is accepted and not finished, or a time limit fires; distinct by content."
)
ASSUMPTIONS = [
    "simulated part: preemption only at operations of the shimmed threading/Popen/psutil objects and PopenFuture.result (the points where the real code can block or observe shared state); the cancellation pool of shutdown(wait=False) runs its tasks in the caller",
    "real part: jobs that spawn children are cancelled only after the shell has reported that its children exist (a shell killed while forking can orphan a child: an OS-level race no tree kill closes); a process still alive 10 s after shutdown(wait=False) returned is counted as kept running (cancellation itself is synchronous and takes < 1 s); sleeps are 30 s so that survivors are unambiguous",
]
WATCHDOG_S = {"quick": 2400, "thorough": 10800}

MANIFEST = {
    "technique": "controlled-concurrency testing: generated schedules (thread steps, process exits, time-limit expiries) drive halmos.processes on shimmed threading/Popen/psutil with a baton scheduler, invariants over the history as oracle; plus randomized runs with real subprocesses and shutdown from another thread",
    "text": "PopenExecutor/PopenFuture are run on shimmed threading, Popen and psutil objects under a baton scheduler whose interleaving of client operations (submit, shutdown with and without wait, result), worker-thread steps, process exits and time-limit expiries is a generated integer list: a submit after a completed shutdown must be refused, no simulated process may be alive once a shutdown has returned and all threads have settled, every accepted job must end up done with its result or exception delivered exactly once, no worker thread may die with an exception, and an expired time limit must surface as TimeoutExpired without output; the same invariants are checked on randomized runs with real child processes (including grandchildren) and through solve_low_level with a hanging solver.",
    "note": "trusts the shims to model Popen/psutil faithfully (a process that has exited is unknown to psutil; terminate/kill are immediate); real-subprocess runs depend on a 10 s settling bound",
}


# ---------------------------------------------------------------- simulated schedules

def run_sim_case(case, acc=None):
    import halmos.processes as P

    sched = simsched.Sched(case["schedule"])
    th, SPopen, ps, conc = simsched.make_shims(sched)
    saved = (P.threading, P.Popen, P.psutil, P.concurrent, P.PopenFuture.result)
    P.threading, P.Popen, P.psutil, P.concurrent = th, SPopen, ps, conc
    orig_result = P.PopenFuture.result

    def result(self, timeout=None):
        sched.yield_point("future.result", lambda: self.done())
        return orig_result(self, timeout=timeout)

    P.PopenFuture.result = result
    orig_is_running = P.PopenFuture.is_running

    def is_running(self):
        r = orig_is_running(self)
        sched.yield_point("after-is_running")  # a thread can be preempted between the test and what follows
        return r

    P.PopenFuture.is_running = is_running
    fails = []
    log = {"accepted": {}, "rejected": set(), "submit_start": {}, "shutdown_returned": [], "results": {}, "set_result_calls": {}}
    try:
        ex = P.PopenExecutor()
        futs = {}

        orig_set_result = P.PopenFuture.set_result

        def client(ops, cname):
            def body():
                for op in ops:
                    k = op[0]
                    if k == "submit":
                        j = op[1]
                        f = P.PopenFuture(["solver", f"q{j}"], timeout=op[2])
                        futs[j] = f
                        log["submit_start"][j] = sched.step
                        try:
                            ex.submit(f)
                            log["accepted"][j] = f
                        except P.ShutdownError:
                            log["rejected"].add(j)
                    elif k == "shutdown":
                        try:
                            ex.shutdown(wait=op[1])
                            log["shutdown_returned"].append(sched.step)
                        except subprocess.TimeoutExpired:
                            # shutdown(wait=True) re-raises the exception of a timed-out job from
                            # _join() without waiting for the others: it did not return, so V2 does
                            # not apply; the statement does not speak about this: counted, not judged
                            log["shutdown_raised"] = log.get("shutdown_raised", 0) + 1
                    elif k == "result":
                        f = log["accepted"].get(op[1])
                        if f is not None:
                            try:
                                log["results"][op[1]] = ("ok", f.result())
                            except BaseException as e:  # noqa: BLE001
                                log["results"][op[1]] = ("exc", type(e).__name__)

            return body

        for n, ops in enumerate(case["clients"]):
            sched.spawn(client(ops, f"client{n}"), f"client{n}")
        sched.run_choices()
        sched.drain()
        # ---- Q1: everything has run as far as it can without further process exits
        shut = bool(log["shutdown_returned"])
        alive = [p for p in sched.procs if not p.exited]
        if shut and alive:
            first = min(log["shutdown_returned"])
            fails.append((["process-alive-after-shutdown", "started-after" if all(p.started_step > first for p in alive) else "started-before"],
                          f"{len(alive)} process(es) alive although shutdown returned at step {first}; trace: {' '.join(sched.trace[-40:])}"))
        for j, s0 in log["submit_start"].items():
            if log["shutdown_returned"] and s0 > min(log["shutdown_returned"]) and j in log["accepted"]:
                fails.append((["submit-accepted-after-shutdown"], f"job {j} submitted at step {s0} after shutdown returned at {min(log['shutdown_returned'])}"))
        # ---- Q2: let the remaining processes exit, then everything must settle
        for _ in range(20):
            sched.finish_all_processes()
            sched.drain()
            if all(p.exited for p in sched.procs):
                break
        timeouts_fired = {p.cmd[-1] for p in sched.procs if p.timed_out}
        stuck = [t for t in sched.blocked()]
        if stuck:
            fails.append((["never-returns"] + sorted({t.label for t in stuck}), f"threads {[t.name + '@' + t.label for t in stuck]} never finish; errors={sched.errors[:2]}; trace: {' '.join(sched.trace[-40:])}"))
        for name, err in sched.errors:
            fails.append((["thread-died", err.split("(")[0]], f"{name}: {err}"))
        for j, f in log["accepted"].items():
            if not f.done():
                fails.append((["job-never-done"], f"job {j} accepted but never done; errors={sched.errors[:2]}; trace: {' '.join(sched.trace[-40:])}"))
                continue
            try:
                r = orig_result(f, timeout=0)
                outcome = ("ok", r)
            except BaseException as e:  # noqa: BLE001
                outcome = ("exc", type(e).__name__)
            if f"q{j}" in timeouts_fired:
                if outcome != ("exc", "TimeoutExpired") or f.stdout:
                    fails.append((["timeout-not-reported"], f"job {j}: time limit fired but result() gives {outcome}, stdout={f.stdout!r}"))
        if acc is not None:
            nt = (shut and bool(log["accepted"])) or bool(timeouts_fired)
            acc.case(case, nt, klass=["sim", f"clients:{len(case['clients'])}", f"jobs:{len(log['submit_start'])}"] + (["shutdown"] if shut else []) + (["timeout-fired"] if timeouts_fired else []) + (["rejected"] if log["rejected"] else []),
                     sample={"clients": case["clients"], "schedule": case["schedule"][:30], "trace": sched.trace[:40]})
    except simsched.HarnessStall as e:
        if acc is not None:
            acc.exclude("harness-stall")
        fails.append((["harness-stall"], str(e)[:500]))
    finally:
        P.threading, P.Popen, P.psutil, P.concurrent, P.PopenFuture.result = saved
        P.PopenFuture.is_running = orig_is_running
        # release any thread still parked (daemon threads; they exit with the process otherwise)
    return fails


def sim_st():
    def ops_st(jobs):
        sub = st.sampled_from(jobs).flatmap(lambda j: st.sampled_from([None, None, 5.0]).map(lambda t: ["submit", j, t]))
        return st.lists(st.one_of(sub, sub, st.sampled_from([["shutdown", False], ["shutdown", False], ["shutdown", True]]), st.sampled_from(jobs).map(lambda j: ["result", j])), min_size=1, max_size=5)

    def mk(c0, c1, two, schedule):
        clients = [c0] + ([c1] if two else [])
        # each job is submitted at most once
        seen = set()
        out = []
        for ops in clients:
            o2 = []
            for op in ops:
                if op[0] == "submit":
                    if op[1] in seen:
                        continue
                    seen.add(op[1])
                o2.append(op)
            out.append(o2 or [["shutdown", False]])
        return {"kind": "sim", "clients": out, "schedule": schedule}

    return st.builds(mk, ops_st([0, 1, 2]), ops_st([2, 3, 1]), st.booleans(), st.lists(st.integers(0, 11), min_size=5, max_size=60))


# ---------------------------------------------------------------- real subprocesses

def marker():
    """sleep duration unique to this harness process: survivors are found by command line, whoever
    their parent has become"""
    return f"30.{os.getpid() % 100000:05d}"


def jobs(ready=None):
    m = marker()
    return {
        "echo": [sys.executable, "-c", "print('unsat')"],
        "sleep": ["sleep", m],
        # a shell with two children; it reports (through a file) when both have been forked
        "child": ["sh", "-c", f"sleep {m} & sleep {m} & echo ok > {ready or '/dev/null'}; wait"],
        "quick": ["sh", "-c", "sleep 0.05; echo sat"],
    }


def survivors():
    import psutil

    out = []
    m = marker()
    for c in psutil.process_iter(["pid", "cmdline", "status"]):
        try:
            if c.info["status"] != psutil.STATUS_ZOMBIE and m in " ".join(c.info["cmdline"] or []):
                out.append(c)
        except psutil.Error:
            pass
    return out


def run_real_case(case, acc=None):
    from halmos.processes import PopenExecutor, PopenFuture, ShutdownError

    fails = []
    ex = PopenExecutor()
    accepted = []
    lock = threading.Lock()

    import tempfile

    rdir = tempfile.mkdtemp(prefix="c17r")
    ready_files = []

    def submitter():
        for n, (kind, tmo, gap) in enumerate(case["jobs"]):
            rf = os.path.join(rdir, f"ready{n}")
            if kind == "child":
                ready_files.append(rf)
            f = PopenFuture(list(jobs(rf)[kind]), timeout=tmo)
            try:
                ex.submit(f)
                with lock:
                    accepted.append((kind, tmo, f))
            except ShutdownError:
                pass
            time.sleep(gap)

    t = threading.Thread(target=submitter)
    t.start()
    time.sleep(case["shutdown_at"])
    if any(k == "child" for k, _, _ in case["jobs"]):
        # a shell killed while it is forking can orphan a child (an OS-level race that no tree kill
        # closes): process trees are cancelled only once they are complete
        t.join(30)
        t_wait = time.time() + 20
        while time.time() < t_wait and not all(os.path.exists(r) for r in ready_files):
            time.sleep(0.01)
    ex.shutdown(wait=False)
    t_shut = time.time()
    t.join(30)
    # a submit after shutdown must be refused
    try:
        ex.submit(PopenFuture(list(jobs()["sleep"])))
        fails.append((["real", "submit-accepted-after-shutdown"], "submit after shutdown(wait=False) returned was accepted"))
    except ShutdownError:
        pass
    # settle: accepted futures done, no descendant alive
    deadline = t_shut + 10
    while time.time() < deadline and (survivors() or any(not f.done() for _, _, f in accepted)):
        time.sleep(0.05)
    left = survivors()
    if left:
        fails.append((["real", "process-alive-after-shutdown"], f"{[(p.pid, p.cmdline()) for p in left][:3]} alive 10 s after shutdown(wait=False) returned; jobs={case['jobs']} shutdown_at={case['shutdown_at']}"))
        for p in left:
            try:
                p.kill()
            except Exception:  # noqa: BLE001
                pass
    import shutil

    shutil.rmtree(rdir, ignore_errors=True)
    for kind, tmo, f in accepted:
        if not f.done():
            fails.append((["real", "job-never-done"], f"{kind} timeout={tmo}"))
            continue
        try:
            out = f.result(timeout=0)
            # (a killed job may come back with returncode 0 when psutil reaped it first; what matters
            # is that it cannot look like a solver answer)
            if kind in ("sleep", "child") and (out[0] or "").strip():
                fails.append((["real", "cancelled-job-has-output"], repr(out)))
        except subprocess.TimeoutExpired:
            if tmo is None:
                fails.append((["real", "timeout-without-limit"], kind))
        except Exception:  # noqa: BLE001 -- a cancelled job may deliver any exception (e.g. its pipes were closed)
            pass
    if acc is not None:
        acc.case(case, any(k in ("sleep", "child") for k, _, _ in case["jobs"]), klass=["real", f"jobs:{len(case['jobs'])}"] + (["grandchild"] if any(k == "child" for k, _, _ in case["jobs"]) else []) + (["time-limit"] if any(t for _, t, _ in case["jobs"]) else []))
    return fails


def real_st():
    job = st.tuples(st.sampled_from(["echo", "sleep", "child", "quick", "sleep"]), st.sampled_from([None, None, 0.2, 5.0]), st.sampled_from([0.0, 0.0, 0.01, 0.05]))
    def mk(jobs, at, k):
        # a shell that is killed while it is forking its children can leave an orphan behind: no
        # kill-by-tree can close that OS-level race; shells get 0.3 s to fork before the shutdown
        if any(j[0] == "child" for j in jobs):
            # (the time limit of a process tree must not fire while the shell is still forking)
            jobs = [(j[0], (None if j[1] == 0.2 else j[1]) if j[0] == "child" else j[1], 0.0) for j in jobs]
        return {"kind": "real", "jobs": [list(j) for j in jobs], "shutdown_at": at, "k": k}

    return st.builds(mk, st.lists(job, min_size=1, max_size=5), st.sampled_from([0.0, 0.005, 0.02, 0.05, 0.3]), st.integers(0, 1 << 20))


def run_hang_case(acc=None):
    """solve_low_level with a solver that outlives the time limit -> unknown, process gone"""
    import tempfile
    from pathlib import Path as FsPath

    from halmos.solve import PathContext, SMTQuery, SolvingContext, solve_low_level
    from vfw import e2e

    fails = []
    dd = tempfile.mkdtemp(prefix="c17")
    stub = os.path.join(os.path.dirname(os.path.dirname(os.path.abspath(__file__))), "vfw", "stubsolver.py")
    sp = os.path.join(dd, "script.json")
    with open(sp, "w") as f:
        f.write('{"default": {"reply": "hang", "delay": 0}}')
    os.environ["STUB_SCRIPT"] = sp
    a = e2e.mk_args(solver_command=f"/venv/bin/python {stub}", solver_timeout_assertion=1.0)
    sctx = SolvingContext(dump_dir=FsPath(dd))
    q = SMTQuery("(set-logic QF_BV)\n(assert true)\n", [])
    out = solve_low_level(PathContext(args=a, path_id=1, solving_ctx=sctx, query=q))
    if str(out.result) != "unknown":
        fails.append((["hang", "not-unknown"], f"{out.result}"))
    time.sleep(0.7)
    import psutil

    left = [c for c in psutil.Process().children(recursive=True) if "stubsolver" in " ".join(c.cmdline())]
    if left:
        fails.append((["hang", "solver-alive-after-timeout"], str([c.pid for c in left])))
        for c in left:
            c.kill()
    # a solver that answers `unsat` only after the (sub-second) time limit: must be unknown, never unsat
    for limit in (0.5, 0.25):
        with open(sp, "w") as f:
            f.write('{"default": {"reply": "unsat", "delay": 3}}')
        a2 = e2e.mk_args(solver_command=f"/venv/bin/python {stub}", solver_timeout_assertion=limit)
        t0 = time.time()
        out = solve_low_level(PathContext(args=a2, path_id=2, solving_ctx=sctx, query=q))
        if str(out.result) != "unknown":
            fails.append((["hang", "late-answer-not-unknown"], f"time limit {limit}s, solver answers unsat after 3 s: result {out.result} (returned after {time.time() - t0:.1f}s)"))
        if acc is not None:
            acc.case({"kind": "hang", "limit": limit}, True, klass=["late-answer"])
    if acc is not None:
        acc.case({"kind": "hang"}, True, klass=["hang-solver"])
    return fails


def shards(tier):
    n = 2500 if tier == "quick" else 40000
    return [{"mode": "sim", "n": n} for _ in range(12)] + [{"mode": "real", "n": 25 if tier == "quick" else 300} for _ in range(3)] + [{"mode": "hang"}]


def run_case(case, acc=None):
    if case.get("kind") == "sim":
        return run_sim_case(case, acc)
    if case.get("kind") == "hang":
        return run_hang_case(acc)
    return run_real_case(case, acc)


def run_shard(spec, seed, tier):
    acc = Acc()
    if spec["mode"] == "hang":
        for b, d in run_hang_case(acc):
            acc.fail(b, {"kind": "hang"}, d)
        return acc

    def body(case):
        for b, d in run_case(case, acc):
            acc.fail(b, case, d)

    run_cases(sim_st() if spec["mode"] == "sim" else real_st(), body, spec["n"], seed)
    return acc


def replay(case):
    return [{"bucket": b, "detail": d} for b, d in run_case(case)]
