"""C11 — the solver query equals the path's constraints; refinement is exact.

Paths come from (i) the C01 program generator (arithmetic-heavy, hashing, storage, calls), (ii)
two-transaction runs whose second path *extends a sliced* first-transaction state (the invariant /
setUp mechanism), (iii) synthetic paths exercising every abstraction symbol at every width.
For each path, with --cache-solver off and on:
  (a) the file written by solve.dump is parsed back with z3 in a fresh context; number and order
      of assertions must match Path.conditions, and under many valuations of all free symbols
      (z3-guided models of the path, near misses, random; uninterpreted functions interpreted by
      a deterministic table) every assertion evaluates like the corresponding condition (symeval);
  (b) named-assertion encoding: ids listed = ids of the conditions, implication form evaluates
      like the plain form when all guards are true;
  (c) refine(q): differs from q only in the declarations of f_evm_* symbols, f_evm_exp stays
      abstract, and the refined query evaluates under every valuation exactly like the original
      with f_evm_* interpreted as the exact EVM operation (incl. y = 0, all widths).
"""

from __future__ import annotations

import os
import random
import re
import tempfile
from pathlib import Path as FsPath

import z3

from props import c01_sound as c01
from vfw import diff, gen, sym, symeval
from vfw.hyp import run_cases, st
from vfw.runner import Acc

PROPERTY = "C11"
LEVEL = "exploration"
RULE = (
    "case = one explored path (from a generated program, from the second transaction on top of a sliced state, or a "
    "synthetic abstraction path) x cache_solver in {off,on} x >=8 valuations. Non-trivial = the path has >=3 conditions of "
    "which >=1 is auxiliary (non-branching) or contains an abstraction application; distinct by (program, path index, mode)."
)
ASSUMPTIONS = [
    "uninterpreted functions other than f_evm_* are interpreted by one arbitrary deterministic table on both sides",
    "z3's SMT-LIB parser is trusted to read back what the solver will read",
]
WATCHDOG_S = {"quick": 2400, "thorough": 10800}

MANIFEST = {
    "technique": "round-trip/differential check of query serialisation: the dumped SMT-LIB file is parsed back and compared assertion-by-assertion with Path.conditions under generated valuations (symeval on both sides); token-level and semantic check of refine(); named-assertion encoding compared with the plain one",
    "text": "Every path of generated programs (including paths that extend a sliced first-transaction state and synthetic paths covering each f_evm_* symbol at widths 256/264/512) is serialised by Path.to_smt2 + solve.dump with the cache off and on; the file is parsed back with z3 and each assertion must evaluate like the corresponding path condition under solver-proposed, near-miss and random valuations; refine() may only rewrite f_evm_* declarations, must leave f_evm_exp abstract, and the refined query must agree with the exact-EVM interpretation of the original for every valuation, including zero divisors.",
    "note": "trusts symeval and z3's SMT-LIB parser; valuations are finite samples",
}

_ARGS = {}


def args(cache):
    if cache not in _ARGS:
        _ARGS[cache] = sym.base_config(depth=12000, cache_solver=cache)
    return _ARGS[cache]


def table_func(name, a, rbits):
    h = hash((name, a)) & ((1 << 300) - 1)
    return (h * 0x9E3779B97F4A7C15 + 12345) % (1 << rbits) if rbits else bool(h & 1)


def mk_env(consts, exact):
    env = symeval.Env(dict(consts))
    env.default_func = table_func
    env.no_std = not exact
    if not exact:
        pass
    env.default_array = lambda n: symeval.ArrVal({}, lambda key, n=n: (hash((n, key)) * 31 + 7) % (1 << 256))
    return env


def free_consts(terms):
    acc = {}
    for t in terms:
        symeval.free_symbols(t, acc)
    return {n: s for n, (k, s) in acc.items() if k == "const"}


def rand_val(rng, sort):
    if sort.kind() == z3.Z3_BOOL_SORT:
        return rng.random() < 0.5
    if sort.kind() == z3.Z3_BV_SORT:
        n = sort.size()
        c = rng.random()
        if c < 0.3:
            return rng.choice([0, 1, (1 << n) - 1, 1 << (n - 1), 2])
        if c < 0.5:
            return rng.randrange(0, 8)
        return rng.getrandbits(n)
    return None


def dump_query(path, a, tag):
    """Path.to_smt2 + solve.dump -> (SMTQuery, file text)"""
    from halmos.solve import PathContext, SolvingContext, dump

    q = path.to_smt2(a)
    d = os.path.join(os.environ.get("VERIF_HOME", "/verif"), ".work", "c11", str(os.getpid()))
    os.makedirs(d, exist_ok=True)
    sctx = SolvingContext(dump_dir=FsPath(d))
    pctx = PathContext(args=a, path_id=tag, solving_ctx=sctx, query=q)
    dump(pctx)
    text = pctx.dump_file.read_text()
    rq = pctx.refine()
    dump(rq)
    rtext = rq.dump_file.read_text()
    try:
        sctx.executor.shutdown(wait=False)
    except Exception:
        pass
    return q, text, rq.query, rtext


def parse_back(text):
    ctx = z3.Context()
    clean = "\n".join(l for l in text.splitlines() if not l.startswith(("(check-sat", "(get-model", "(get-unsat-core", "(set-option")))
    return list(z3.parse_smt2_string(clean, ctx=ctx)), ctx


def check_path(conds, cache, rng, guided_consts=None, tag=0):
    """conds: list of z3 conditions of a halmos Path object `path` (passed as object)"""
    path = conds
    cl = list(path.conditions)
    a = args(cache)
    fails = []
    try:
        q, text, rq, rtext = dump_query(path, a, tag)
    except Exception as e:
        return [(["dump-raise", type(e).__name__], repr(e)[:300])], {}
    ids = [str(c.get_id()) for c in cl]
    if list(q.assertions) != ids:
        fails.append((["ids"], f"query lists {len(q.assertions)} ids, path has {len(ids)} conditions"))
    try:
        parsed, _ = parse_back(text)
        rparsed, _ = parse_back(rtext)
    except z3.Z3Exception as e:
        return fails + [(["unparsable", "cache" if cache else "plain"], str(e)[:300])], {}
    if cache:
        # named form: n implications + n guard assertions
        guards = {}
        impl = []
        for p in parsed:
            if z3.is_implies(p):
                impl.append(p)
            elif z3.is_const(p):
                guards[str(p)] = True
        if len(impl) != len(cl):
            fails.append((["count", "cache"], f"{len(impl)} implications for {len(cl)} conditions"))
        if sorted(guards) != sorted(ids):
            fails.append((["named-ids"], f"named assertions {sorted(guards)[:5]} vs condition ids {sorted(ids)[:5]}"))
        body = [(str(p.arg(0)), p.arg(1)) for p in impl]
        rbody = [p.arg(1) for p in rparsed if z3.is_implies(p)]
        plain = [b for _, b in body]
        if [g for g, _ in body] != ids[: len(body)]:
            fails.append((["named-order"], "guards are not the condition ids in order"))
    else:
        plain = parsed
        rbody = rparsed
        if len(plain) != len(cl):
            fails.append((["count", "plain"], f"{len(plain)} assertions in the file for {len(cl)} conditions"))
    if fails:
        return fails, {}
    # (c) token-level: refine only touches f_evm declarations
    d1 = [l for l in text.splitlines()]
    d2 = [l for l in rtext.splitlines()]
    if len(d1) != len(d2):
        fails.append((["refine", "line-count"], f"{len(d1)} vs {len(d2)} lines"))
    else:
        for l1, l2 in zip(d1, d2):
            if l1 != l2 and not (l1.startswith("(declare-fun f_evm_") and l2.startswith("(define-fun f_evm_")):
                fails.append((["refine", "touches-other-lines"], f"{l1[:120]} -> {l2[:120]}"))
                break
    if "(define-fun f_evm_exp" in rtext:
        fails.append((["refine", "exp-defined"], "f_evm_exp must stay abstract"))
    for m in re.finditer(r"\(declare-fun (f_evm_(bvmul|bvudiv|bvurem|bvsdiv|bvsrem)_\d+) ", rtext):
        fails.append((["refine", "not-applied", m.group(2)], f"{m.group(1)} still declared after refine"))
        break
    # valuations
    fc = free_consts(cl)
    vals = []
    if guided_consts:
        vals += guided_consts
    for _ in range(8):
        vals.append({n: rand_val(rng, s) for n, s in fc.items() if rand_val(rng, s) is not None})
    stats = {"nvals": len(vals), "abstraction": "f_evm_" in text, "aux": sum(1 for c, b in path.conditions.items() if not b)}
    for consts in vals:
        consts = {n: v for n, v in consts.items() if v is not None}
        for n, s in fc.items():
            if n not in consts and s.kind() != z3.Z3_ARRAY_SORT:
                consts[n] = rand_val(rng, s)
        try:
            env_o = mk_env(consts, exact=False)
            ov = [bool(symeval.evaluate(c, env_o)) for c in cl]
            env_p = mk_env(consts, exact=False)
            pv = [bool(symeval.evaluate(p, env_p)) for p in plain]
        except (symeval.Unbound, NotImplementedError) as e:
            stats["uneval"] = stats.get("uneval", 0) + 1
            continue
        if ov != pv:
            i = next(i for i, (x, y) in enumerate(zip(ov, pv)) if x != y)
            fails.append((["assertion-differs", "cache" if cache else "plain"], f"condition #{i} {str(cl[i])[:200]} evaluates {ov[i]} but the serialised assertion {str(plain[i])[:200]} evaluates {pv[i]}"))
            break
        # refined vs exact interpretation of the original
        try:
            env_x = mk_env(consts, exact=True)
            xv = [bool(symeval.evaluate(c, env_x)) for c in cl]
            env_r = mk_env(consts, exact=True)
            env_r.funcs["f_evm_exp_256"] = lambda x, y: pow(x, y, 1 << 256)
            rv = [bool(symeval.evaluate(p, env_r)) for p in rbody]
        except (symeval.Unbound, NotImplementedError):
            continue
        if xv != rv:
            i = next(i for i, (x, y) in enumerate(zip(xv, rv)) if x != y)
            fails.append((["refine", "not-exact"], f"condition #{i} {str(cl[i])[:200]}: exact EVM interpretation gives {xv[i]}, refined query gives {rv[i]}; valuation={ {k: v for k, v in list(consts.items())[:6]} }"))
            break
    return fails, stats


# ---------------------------------------------------------------- path sources

def guided_valuations(world, ex):
    out = []
    try:
        for inp in diff.model_inputs(world, list(ex.path.conditions), timeout_ms=200):
            env = diff.mk_env(world, inp)
            out.append({k: v for k, v in env.consts.items() if not isinstance(v, symeval.ArrVal)})
    except z3.Z3Exception:
        pass
    return out


def run_program_case(case, acc=None):
    world = c01.build_world(case)
    rng = random.Random(case.get("seed", 0))
    try:
        sevm, exs = sym.run_world(world, args(False))
    except Exception:
        if acc is not None:
            acc.exclude("crash")
        return []
    fails = []
    for i, ex in enumerate(exs[:6]):
        gv = guided_valuations(world, ex)
        for cache in (False, True):
            f, stats = check_path(ex.path, cache, rng, gv, tag=i)
            if acc is not None and stats:
                nt = len(ex.path.conditions) >= 3 and (stats["aux"] >= 1 or stats["abstraction"])
                acc.case({"p": case.get("bodies", case.get("raw")), "i": i, "cache": cache}, nt, klass=["program", "cache" if cache else "plain"] + (["abstraction"] if stats["abstraction"] else []))
            fails += f
        if fails:
            break
    return fails


def run_sliced_case(case, acc=None):
    """tx1 on a generated program, then slice the post state and run tx2 on top of it"""
    from halmos.__main__ import mk_solver
    from halmos.bytevec import ByteVec
    from halmos.sevm import Message, Path
    from halmos.utils import EVM

    world = c01.build_world(case)
    rng = random.Random(case.get("seed", 0))
    a = args(False)
    try:
        sevm, ex0 = sym.mk_world(world, a)
        exs = [e for e in sevm.run(ex0) if sym.outcome(e) == "success"]
    except Exception:
        return []
    fails = []
    for j, post in enumerate(exs[:2]):
        try:
            post.path_slice()
            parent_before = [c.get_id() for c in post.path.conditions]
            path = Path(mk_solver(a))
            path.extend_path(post.path)
            msg = Message(target=sym.con_addr(c01.MAIN), caller=z3.BitVec("caller2", 160), origin=z3.BitVec("origin2", 160), value=z3.BitVecVal(0, 256), data=ByteVec(z3.BitVec("cd2", 8 * 32 * gen.NW)), call_scheme=EVM.CALL)
            exs2 = list(sevm.run_message(post, msg, path))
        except Exception:
            continue
        # independent record: extending a path must leave the parent's own constraints untouched
        # (a second transaction from the same state would otherwise inherit its sibling's conditions)
        if [c.get_id() for c in post.path.conditions] != parent_before:
            fails.append((["sliced", "parent-path-modified"], f"the state's path had {len(parent_before)} conditions before a transaction was run from it, {len(post.path.conditions)} afterwards"))
            return fails
        for i, ex in enumerate(exs2[:4]):
            n_inherited = len(post.path.conditions)
            for cache in (False, True):
                f, stats = check_path(ex.path, cache, rng, None, tag=100 + 10 * j + i)
                if acc is not None and stats:
                    acc.case({"sliced": case.get("bodies"), "j": j, "i": i, "cache": cache}, n_inherited >= 2 and len(ex.path.conditions) > n_inherited, klass=["sliced", "cache" if cache else "plain"])
                fails += [(["sliced"] + b, d) for b, d in f]
            if fails:
                return fails
    return fails


def run_synth_case(case, acc=None):
    """one condition per abstraction symbol/width"""
    from halmos.__main__ import mk_solver
    from halmos.sevm import Path, f_div, f_exp, f_mod, f_mul, f_sdiv, f_smod

    rng = random.Random(case["seed"])
    a = args(False)
    path = Path(mk_solver(a))
    x, y, z = z3.BitVecs("x y z", 256)
    specs = {
        "div": f_div(x, y) == z, "sdiv": f_sdiv(x, y) == z, "smod": f_smod(x, y) == z, "exp": f_exp(x, y) == z,
        "mod256": f_mod[256](x, y) == z, "mul256": f_mul[256](x, y) == z,
        "mod264": f_mod[264](z3.ZeroExt(8, x), z3.ZeroExt(8, y)) == z3.ZeroExt(8, z),
        "mod512": f_mod[512](z3.ZeroExt(256, x), z3.ZeroExt(256, y)) == z3.ZeroExt(256, z),
        "mul512": z3.Extract(255, 0, f_mul[512](z3.ZeroExt(256, x), z3.ZeroExt(256, y))) == z,
    }
    for k in case["which"]:
        path.append(specs[k])
    path.append(z3.ULT(x, z + 5), branching=True)
    gv = []
    for yy in (0, 1, 3, (1 << 256) - 1, 1 << 255):
        for xx in (0, 7, (1 << 256) - 7, 1 << 255):
            gv.append({"x": xx, "y": yy, "z": rng.choice([0, xx, 1, rng.getrandbits(256)])})
    fails = []
    for cache in (False, True):
        f, stats = check_path(path, cache, rng, gv, tag=900)
        if acc is not None and stats:
            acc.case({"synth": case["which"], "cache": cache}, True, klass=["synthetic"] + case["which"])
        fails += [(["synthetic"] + b, d) for b, d in f]
    return fails


def shards(tier):
    n = 45 if tier == "quick" else 900
    return [{"mode": "program", "n": n} for _ in range(10)] + [{"mode": "sliced", "n": n} for _ in range(4)] + [{"mode": "synth"}]


def arith_case_st():
    """C01 programs biased towards arithmetic abstractions in branch conditions"""
    e = gen.expr_st(c01.ADDRS, 3)
    ab = st.sampled_from(["DIV", "MOD", "SDIV", "SMOD", "MUL", "EXP"])
    cond = st.builds(lambda o, a, b, c: ["op2", "GT", ["op2", o, a, b], c], ab, e, e, e)
    body = st.builds(lambda c, c2, v: [["if", c, [["sstore", ["c", 1], v]], [["mstore", 0, v]]], ["if", c2, [["return", 0, 32]], []], ["stop"]], cond, gen.cond_st(c01.ADDRS), e)
    mm = st.builds(lambda a, b, c: ["pop", ["op3", "MULMOD", a, b, c]], e, e, e)
    am = st.builds(lambda a, b, c: ["sstore", ["c", 2], ["op3", "ADDMOD", a, b, c]], e, e, e)
    return st.builds(lambda b, m1, m2, seed: {"kind": "dsl", "bodies": [[m1, m2] + b, [["stop"]], [["stop"]]], "seed": seed}, body, mm, am, st.integers(0, 1 << 30))


def run_shard(spec, seed, tier):
    acc = Acc()
    if spec["mode"] == "synth":
        keys = ["div", "sdiv", "smod", "exp", "mod256", "mul256", "mod264", "mod512", "mul512"]
        rng = random.Random(seed)
        cases = [[k] for k in keys] + [rng.sample(keys, 3) for _ in range(12)] + [keys]
        for w in cases:
            case = {"synth": True, "which": w, "seed": rng.randrange(1 << 30)}
            for b, d in run_synth_case(case, acc):
                acc.fail(b, case, d)
        return acc
    fn = run_program_case if spec["mode"] == "program" else run_sliced_case
    strat = st.one_of(c01.case_st("dsl"), arith_case_st(), arith_case_st())

    def body(case):
        if spec["mode"] == "sliced":
            case = dict(case, sliced=True)
        for b, d in fn(case, acc):
            acc.fail(b, case, d)

    run_cases(strat, body, spec["n"], seed)
    return acc


def replay(case):
    if case.get("synth"):
        f = run_synth_case(case)
    elif case.get("sliced"):
        f = run_sliced_case(case)
    else:
        f = run_program_case(case)
    return [{"bucket": b, "detail": d} for b, d in f]
