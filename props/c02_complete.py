"""C02 — no feasible behaviour is dropped during exploration.

Same program generator as C01 plus shapes aimed at the pruning mechanisms (hash +- offset
comparisons, symbolic call targets aliasing deployed accounts, value transfers with symbolic
balances, DIV/MOD auxiliary axioms, symbolic JUMP targets), crossed with the configuration axis
solver_timeout_branching in {1 ms (default), 2 s, 3 s} x loop in {1, 2, 4}.

Oracles
  (a) coverage: every admissible concrete input (random, boundary, z3-guided) is admitted by the
      constraints of >= 1 reported path, unless the run carries an incompleteness flag
      (bounded loop recorded, --depth warning, stuck path) - C10 owns those;
  (b) pruning: Exec.check is wrapped (harness side) to log every `unsat` verdict; z3 - as input
      generator only - is asked for a model of path /\\ cond; a model that symeval confirms
      (all conditions and the pruned condition true under the standard interpretation) is a
      feasible behaviour that was discarded;
  (c) unknown-injection: Path.check is wrapped so that a seeded subset of solver calls answers
      `unknown`; every input covered without injection must still be covered (and the covering
      paths must still satisfy the C01 oracle).
"""

from __future__ import annotations

import random

import z3

from props import c01_sound as c01
from vfw import diff, gen, sym, symeval
from vfw.hyp import ddmin, run_cases, st
from vfw.runner import Acc

PROPERTY = "C02"
LEVEL = "exploration"
RULE = (
    "case = (program from the C01 DSL + pruning-oriented shapes, configuration (branching timeout, loop bound), "
    "4 random/boundary inputs + z3-guided inputs of reported paths and of pruned alternatives, optional unknown-injection "
    "mask). Non-trivial = an input was covered by a path with >=1 branching condition, or an injected `unknown` landed on "
    "a solver call whose un-injected answer was unsat; distinct by (program, config, input)."
)
ASSUMPTIONS = [
    "inputs violating documented modelling assumptions (balances > 2^128, hash collisions / out-of-range hashes) are excluded",
    "a run that records a bounded loop, prints a --depth warning or reports a stuck path is flagged incomplete: uncovered inputs are then C10's matter",
    "symbolic memory offsets/sizes are not generated (documented unsupported -> stuck)",
]
WATCHDOG_S = {"quick": 2400, "thorough": 10800}

MANIFEST = {
    "technique": "coverage oracle over generated programs: concrete inputs (random, boundary, solver-proposed for reported paths and for every pruned alternative) must be admitted by some reported path, decided by symeval; fault injection of `unknown` solver answers with a superset relation; configuration sweep",
    "text": "Generated programs are explored under several branching-timeout and loop-bound settings; every admissible concrete input must be admitted by at least one reported path unless the run is flagged bounded/errored; every `unsat` pruning verdict seen by Exec.check is challenged with a z3-proposed model that is re-decided concretely; replacing a random subset of solver answers by `unknown` must never lose coverage. Bounded search over programs and inputs.",
    "note": "trusts symeval + refevm; z3 only proposes inputs; a z3 'unsat/unknown' when challenging a pruning verdict only means no witness was found",
}

CASE_BOUND_S = 300.0

CONFIGS = [
    {"solver_timeout_branching": 0.001, "loop": 2},
    {"solver_timeout_branching": 2, "loop": 2},
    {"solver_timeout_branching": 3, "loop": 1},
    {"solver_timeout_branching": 0.001, "loop": 4},
]

_ARGS = {}


def cfg(i, symbolic_jump=False):
    key = (i, symbolic_jump)
    if key not in _ARGS:
        _ARGS[key] = sym.base_config(depth=12000, symbolic_jump=symbolic_jump, **CONFIGS[i])
    return _ARGS[key]


# ---------------------------------------------------------------- extra program shapes

def hashcmp_body_st():
    """if (h <op> h + off) ... : the dynamic-array overflow pattern with every kind of offset"""
    H = st.one_of(
        st.integers(0, gen.NW - 1).map(lambda i: ["mapkey", ["cd", i], 1]),
        st.integers(0, 5).map(lambda s: ["arrkey", ["c", 0], s]),
        st.integers(0, gen.NW - 1).map(lambda i: ["mapkey", ["op2", "AND", ["cd", i], ["c", 3]], 2]),
    )
    off = st.sampled_from([1, 2, 100, (1 << 64) - 1, 1 << 64, (1 << 64) + 1, 1 << 255, (1 << 256) - 1, (1 << 256) - 2, (1 << 256) - (1 << 64)])

    def mk(h, o, form, extra):
        hp = ["op2", "ADD", h, ["c", o]] if form % 2 == 0 else ["op2", "ADD", ["c", o], h]
        if form >= 4:
            hp = ["op2", "ADD", hp, extra]  # three-operand sum
        cond = [["op2", "LT", hp, h], ["op2", "GT", h, hp], ["op1", "ISZERO", ["op2", "GT", hp, h]], ["op2", "LT", hp, h], ["op2", "LT", hp, h], ["op2", "GT", h, hp]][form % 6]
        return [["if", cond, [["mstore", 0, ["c", 1]], ["return", 0, 32]], [["mstore", 0, ["c", 2]], ["return", 0, 32]]], ["stop"]]

    return st.builds(mk, H, off, st.integers(0, 5), st.one_of(st.just(["c", 0]), st.integers(0, gen.NW - 1).map(lambda i: ["op2", "AND", ["cd", i], ["c", 7]]), st.integers(0, gen.NW - 1).map(lambda i: ["cd", i])))


def symjump_body_st():
    # JUMP to calldata-derived destination among several JUMPDESTs
    def mk(nd, tail):
        prog = [["raw", "5f35" + "56"]]  # PUSH0 CALLDATALOAD JUMP
        for k in range(nd):
            prog.append(["raw", "5b" + "60" + f"{k + 1:02x}" + "5f52" + "60205ff3"])  # JUMPDEST PUSH1 k PUSH0 MSTORE PUSH1 32 PUSH0 RETURN
        return prog + [["stop"]]

    return st.builds(mk, st.integers(1, 3), st.just(0))


def case_st(kind):
    if kind in ("dsl", "mut", "raw"):
        base = c01.case_st(kind)
    elif kind == "hashcmp":
        base = st.builds(lambda b, seed: {"kind": "dsl", "bodies": [b, [["stop"]], [["stop"]]], "seed": seed}, hashcmp_body_st(), st.integers(0, 1 << 30))
    elif kind == "symjump":
        base = st.builds(lambda b, seed: {"kind": "dsl", "bodies": [b, [["stop"]], [["stop"]]], "seed": seed, "symjump": True}, symjump_body_st(), st.integers(0, 1 << 30))
    return st.builds(lambda c, ci, inj: dict(c, cfg=ci, inject=inj), base, st.integers(0, len(CONFIGS) - 1), st.one_of(st.just(None), st.integers(1, 1 << 30)))


# ---------------------------------------------------------------- instrumentation (harness side)

class CheckLog:
    """wrap Exec.check to log unsat verdicts, and Path.check to inject `unknown`"""

    def __init__(self, inject_seed=None, rate=0.3):
        self.unsat = []
        self.inject_seed = inject_seed
        self.rate = rate
        self.ncalls = 0
        self.injected = 0
        self.injected_on_unsat = 0

    def __enter__(self):
        import halmos.sevm as S

        self.S = S
        self.orig_check = S.Exec.check
        self.orig_pcheck = S.Path.check
        log = self
        rng = random.Random(self.inject_seed) if self.inject_seed else None

        def check(ex, cond):
            r = log.orig_check(ex, cond)
            if r == z3.unsat and len(log.unsat) < 40:
                log.unsat.append((list(ex.path.conditions), cond))
            return r

        def pcheck(path, cond):
            log.ncalls += 1
            if rng is not None and rng.random() < log.rate:
                log.injected += 1
                real = log.orig_pcheck(path, cond)
                if real == z3.unsat:
                    log.injected_on_unsat += 1
                return z3.unknown
            return log.orig_pcheck(path, cond)

        S.Exec.check = check
        S.Path.check = pcheck
        return self

    def __exit__(self, *a):
        self.S.Exec.check = self.orig_check
        self.S.Path.check = self.orig_pcheck


def flagged(r):
    sevm = r["sevm"]
    if sevm is None:
        return "crash"
    if sevm.logs.bounded_loops:
        return "bounded-loop"
    if any("--depth" in w for w in r["logs"].warnings()):
        return "depth"
    if any(sym.outcome(e).startswith(("stuck", "other")) for e in r["exs"]):
        return "stuck"
    return None


def covered_set(world, exs, inputs):
    out = []
    for inp in inputs:
        env0 = diff.mk_env(world, inp)
        c = False
        for ex in exs:
            ok, _ = diff.path_covers(ex, env0.copy())
            if ok or ok is None:
                c = True
                break
        out.append(c)
    return out


def run_case(case, acc: Acc | None = None):
    world = c01.build_world(case)
    args = cfg(case.get("cfg", 0), bool(case.get("symjump")))
    rng = random.Random(case.get("seed", 0))
    inputs = case.get("inputs") or diff.boundary_inputs(world, rng, 4)
    fails = []
    try:
        with CheckLog() as log:
            r = diff.check_world(world, inputs, args, guided=not case.get("inputs"))
    except RecursionError:
        if acc is not None:
            acc.exclude("recursion")
        return []
    flag = flagged(r)
    tag = ["symbolic-jump"] if case.get("symjump") else []
    # C01 oracle on the covering paths (a dropped constraint shows up here as a wrong end state)
    for b, d in r["fails"]:
        fails.append((tag + ["unsound"] + b, d))
    # (a) coverage
    if r["uncovered_inputs"] and flag is None:
        inp = r["uncovered_inputs"][0]
        fails.append((tag + ["uncovered"], f"no reported path admits input { {k: v for k, v in inp.items() if k != '_guided'} } and nothing is flagged ({len(r['exs'])} paths)"))
    # (b) challenge pruning verdicts
    challenged = confirmed = 0
    for conds, cond in log.unsat[:8]:
        try:
            ms = diff.model_inputs(world, conds, timeout_ms=300, extra=[cond])
        except z3.Z3Exception:
            continue
        challenged += 1
        for inp in ms[-1:]:
            if not diff.admissible(world, inp):
                continue
            env = diff.mk_env(world, inp)
            try:
                ok, _, _ = symeval.eval_conditions(list(conds) + [cond], env)
            except (symeval.Unbound, NotImplementedError):
                continue
            if ok:
                confirmed += 1
                fails.append((tag + ["pruned-feasible"], f"check() answered unsat for {str(cond)[:200]} but input { {k: v for k, v in inp.items()} } satisfies the path and the condition"))
                break
    # (c) unknown injection
    inj_hit = False
    if case.get("inject") and r["sevm"] is not None and not r.get("crash"):
        allin = [i for i in inputs if diff.admissible(world, i)]
        base_cov = covered_set(world, r["exs"], allin)
        try:
            with CheckLog(inject_seed=case["inject"]) as log2:
                r2 = diff.check_world(world, allin, args, guided=False)
        except RecursionError:
            r2 = None
        if r2 is not None and r2["sevm"] is not None and not r2.get("crash"):
            inj_hit = log2.injected_on_unsat > 0
            for b, d in r2["fails"]:
                fails.append((tag + ["inject", "unsound"] + b, d))
            if flagged(r2) is None:
                cov2 = covered_set(world, r2["exs"], allin)
                for inp, c1, c2 in zip(allin, base_cov, cov2):
                    if c1 and not c2:
                        fails.append((tag + ["inject", "lost-coverage"], f"input covered without injection is not covered when {log2.injected} solver answers become unknown: { {k: v for k, v in inp.items() if k != '_guided'} }"))
                        break
    if acc is not None:
        if r.get("crash"):
            acc.exclude("crash:" + r["crash"])
        stt = r["stats"]
        branching = any(any(ex.path.conditions.values()) for ex in r["exs"])
        nt = (stt["covered"] > 0 and branching) or inj_hit
        klass = [f"cfg:{case.get('cfg', 0)}", "flag:" + str(flag)] + (["inject"] if case.get("inject") else []) + (["inject-hit-unsat"] if inj_hit else []) + sorted(c01.features(case))
        acc.case(case, nt, klass=klass, sample={"bodies": case.get("bodies"), "cfg": CONFIGS[case.get("cfg", 0)], "stats": stt})
        acc.extra["n_inputs"] = acc.extra.get("n_inputs", 0) + stt["inputs"]
        acc.extra["n_covered"] = acc.extra.get("n_covered", 0) + stt["covered"]
        acc.extra["n_uncovered_flagged"] = acc.extra.get("n_uncovered_flagged", 0) + (stt["uncovered"] if flag else 0)
        acc.extra["n_unsat_verdicts_challenged"] = acc.extra.get("n_unsat_verdicts_challenged", 0) + challenged
        acc.extra["n_guided"] = acc.extra.get("n_guided", 0) + stt["guided"]
    return fails


def shards(tier):
    n = 60 if tier == "quick" else 1200
    out = [{"kind": "dsl", "n": n} for _ in range(9)]
    out += [{"kind": "mut", "n": n} for _ in range(2)]
    out += [{"kind": "raw", "n": 2 * n} for _ in range(2)]
    out += [{"kind": "hashcmp", "n": 2 * n} for _ in range(2)]
    out += [{"kind": "symjump", "n": n // 2}]
    return out


def run_shard(spec, seed, tier):
    acc = Acc()

    def body(case):
        # z3 does not always honour its time limit (a few preprocessing steps cannot be interrupted), and
        # a branching query of halmos can then block for hours: every case runs in a forked child that is
        # killed after CASE_BOUND_S; such a case is counted as excluded, never judged
        from vfw.util import Hang, forked

        def child():
            sub = Acc()
            fl = run_case(case, sub)
            return fl, sub.dump()

        try:
            fl, d_ = forked(child, CASE_BOUND_S)
        except Hang:
            acc.exclude(f"case-exceeded-{int(CASE_BOUND_S)}s (z3 call does not return)")
            return
        except RuntimeError as e:
            acc.exclude("case-child-died: " + str(e)[:60])
            return
        acc.absorb(d_)
        for b, d in fl:
            acc.fail(b, case, d)

    run_cases(case_st(spec["kind"]), body, spec["n"], seed)
    return acc


def replay(case):
    return [{"bucket": b, "detail": d} for b, d in run_case(case)]


def shrink(case, same):
    return c01.shrink(case, same)
