"""C18 — configuration resolves by precedence and round-trips.

(1) stacks of <= 5 layers (any ConfigSource incl. repeats) x subsets of options x values (incl.
    falsy ones) built with with_overrides on top of default_config(); reference fold: value of an
    option = value in the layer with maximal (source, recency) among layers that set it;
    resolved_solver_command by the stated rule.  Stacks are created and dropped in one process and
    every option is read several times (cached attribute reads must stay correct).
(2) the real loaders: load_config(argv + halmos.toml in a scratch dir), with_natspec, with_devdoc,
    fed with option strings produced by an own unparser; annotation layers over lower layers.
(3) structured values: parse(unparse(v)) == v, unparse(parse(.)) idempotent, for timeouts,
    error-code sets, array-length maps, CSV int lists, trace-event lists.
(4) malformed values (grammar mutation) are rejected (exception / exit status 2), never defaulted.
"""

from __future__ import annotations

import os
import random
import shlex

from vfw.hyp import run_cases, st
from vfw.runner import Acc

PROPERTY = "C18"
LEVEL = "exploration"
RULE = (
    "case kinds: (stack) <=5 layers over 14 options with values incl. falsy ones, checked against a reference fold; "
    "(loader) argv / toml / natspec / devdoc strings from an own unparser; (value) structured option values round-tripped; "
    "(malformed) grammar-mutated strings. Non-trivial = a stack in which >=2 layers set the same option or an equal-source "
    "pair exists, a loader case with >=2 sources, a structured value with >=2 elements or a non-integral timeout; distinct by content."
)
ASSUMPTIONS = [
    "timeouts are compared with a relative tolerance of 1e-9 (float parsing)",
    "malformed strings are limited to ones no documented syntax admits (list in MALFORMED)",
]
WATCHDOG_S = {"quick": 2400, "thorough": 10800}

MANIFEST = {
    "technique": "reference-model testing of layered configuration (generated layer stacks vs a precedence fold), generated CLI/toml/annotation strings through the real loaders, round-trip and rejection properties for structured option grammars",
    "text": "Hypothesis generates stacks of up to five configuration layers over all sources (with repeats, None and falsy values) and compares every option and its reported source with a 10-line reference fold, including the --solver/--solver-command rule and repeated cached reads across many short-lived Config objects; option strings produced by an independent unparser go through load_config (scratch halmos.toml), with_natspec and with_devdoc; structured values (timeouts with units, error-code sets, array-length maps, CSV lists, trace events) are round-tripped and grammar-mutated malformed strings must be rejected; annotation scoping is checked with sibling-function annotations in the artifact (with_devdoc) and end to end through run_contract, where every test function must behave as under its own effective --loop whatever its siblings are annotated with.",
    "note": "trusts the reference fold and the own unparser; natspec extraction from the AST happens in _main (needs forge) and is not driven",
}

OPTS = {
    "loop": st.sampled_from([0, 1, 2, 3, 7]),
    "depth": st.sampled_from([0, 1, 1000]),
    "width": st.sampled_from([0, 1, 5]),
    "invariant_depth": st.sampled_from([0, 1, 2, 4]),
    "verbose": st.sampled_from([0, 1, 3]),
    "debug": st.booleans(),
    "early_exit": st.booleans(),
    "cache_solver": st.booleans(),
    "storage_layout": st.sampled_from(["solidity", "generic"]),
    "function": st.sampled_from(["", "check_", "test", "(check|invariant)_"]),
    "solver_timeout_assertion": st.sampled_from([0.0, 0.001, 0.5, 1.0, 1.5, 60.0, 3600.0]),
    "panic_error_codes": st.sampled_from([set(), {1}, {0x11, 0x12}, {1, 0x41, 0x51}]),
    "array_lengths": st.sampled_from([{}, {"a": [1]}, {"a": [0, 2], "s.x": [3]}, {"m[0]": [1, 0]}]),
    "default_array_lengths": st.sampled_from([[0], [0, 1, 2], [5]]),
    "solver": st.sampled_from(["yices", "z3", "cvc5"]),
    "solver_command": st.sampled_from(["", "/venv/bin/z3", "/venv/bin/yices-smt2 --smt2-model-format", "echo 'a b' c"]),
}
SOURCES = ["config_file", "contract_annotation", "function_annotation", "command_line"]


def layer_st():
    names = sorted(OPTS)
    # a layer may also carry explicit None entries (= "not set here"), which is what
    # vars(argparse.Namespace) hands to with_overrides for every option absent from the command line
    return st.builds(
        lambda src, ks, vals, nones: [src, {**{k: None for k in nones if k not in ks}, **{k: vals[k] for k in ks}}],
        st.sampled_from(SOURCES),
        st.lists(st.sampled_from(names), min_size=1, max_size=5, unique=True),
        st.fixed_dictionaries({k: OPTS[k] for k in names}),
        st.one_of(st.just([]), st.lists(st.sampled_from(names), max_size=6, unique=True), st.just(names)),
    )


def jsonable(v):
    if isinstance(v, set):
        return {"__set__": sorted(v)}
    return v


def unjson(v):
    if isinstance(v, dict) and "__set__" in v:
        return set(v["__set__"])
    return v


def stack_st():
    return st.lists(layer_st(), min_size=1, max_size=5).map(lambda ls: {"kind": "stack", "layers": [[s, {k: jsonable(v) for k, v in d.items()}] for s, d in ls]})


def ref_fold(layers, defaults):
    """value = the one from the layer with maximal (source, recency) among layers that set it"""
    from halmos.config import ConfigSource

    out = {}
    for name in OPTS:
        best = (ConfigSource.default, -1, defaults[name])
        for i, (src, d) in enumerate(layers):
            if name in d and d[name] is not None:
                key = (ConfigSource[src], i)
                if key >= (best[0], best[1]):
                    best = (ConfigSource[src], i, d[name])
        out[name] = (best[2], best[0])
    return out


_DEFAULTS = None


def defaults():
    global _DEFAULTS
    if _DEFAULTS is None:
        from halmos.config import default_config

        d = default_config()
        _DEFAULTS = {k: getattr(d, k) for k in OPTS}
    return _DEFAULTS


def eqv(a, b):
    if isinstance(a, float) or isinstance(b, float):
        try:
            return abs(float(a) - float(b)) <= 1e-9 * max(1.0, abs(float(b)))
        except (TypeError, ValueError):
            return False
    return a == b


def run_stack(case):
    from halmos.config import ConfigSource, default_config

    layers = [[s, {k: unjson(v) for k, v in d.items()}] for s, d in case["layers"]]
    cfg = default_config()
    for src, d in layers:
        cfg = cfg.with_overrides(ConfigSource[src], **d)
    exp = ref_fold(layers, defaults())
    fails = []
    for rnd in range(2):  # second round exercises cached reads
        for name, (ev, es) in exp.items():
            got = getattr(cfg, name)
            if not eqv(got, ev):
                fails.append((["precedence", name], f"{name}: got {got!r} expected {ev!r} (from {es.name}) layers={case['layers']} round={rnd}"))
            gv, gs = cfg.value_with_source(name)
            if not eqv(gv, ev) or gs != es:
                fails.append((["value_with_source", name], f"{name}: got ({gv!r},{gs.name}) expected ({ev!r},{es.name}) layers={case['layers']}"))
        if fails:
            return fails[:3]
    # solver resolution
    (sv, ss), (cv, cs) = exp["solver"], exp["solver_command"]
    try:
        got = cfg.resolved_solver_command
    except Exception as e:
        got = repr(e)
    if cv and cs >= ss:
        want = shlex.split(cv)
    else:
        from halmos.solvers import get_solver_command

        try:
            want = get_solver_command(sv)
        except Exception as e:
            want = repr(e)
    if got != want and not (isinstance(got, str) and isinstance(want, str)):
        fails.append((["solver-resolution"], f"got {got!r} expected {want!r} solver=({sv},{ss.name}) command=({cv!r},{cs.name})"))
    return fails


# ---------------------------------------------------------------- own unparser

def unparse_opt(name, v):
    flag = "--" + name.replace("_", "-")
    if isinstance(v, bool):
        return [flag] if v else None  # store_true flags cannot be set to False on a command line
    if name == "verbose":
        return ["-" + "v" * v] if v else None
    if name == "solver_timeout_assertion":
        ms = v * 1000
        return [flag, (f"{int(ms)}ms" if ms == int(ms) else f"{v!r}s")]
    if name == "panic_error_codes":
        return [flag, ("*" if not v else ",".join(hex(x) for x in sorted(v)))]
    if name == "array_lengths":
        if not v:
            return None
        return [flag, ",".join(f"{k}={{{','.join(map(str, vs))}}}" if len(vs) != 1 else f"{k}={vs[0]}" for k, vs in v.items())]
    if name == "default_array_lengths":
        return [flag, ",".join(map(str, v))]
    return [flag, str(v)]


def toml_value(name, v):
    if isinstance(v, bool):
        return "true" if v else "false"
    if isinstance(v, (int, float)) and name != "solver_timeout_assertion":
        return str(v)
    u = unparse_opt(name, v)
    s = u[1] if u and len(u) > 1 else ""
    return '"' + s.replace("\\", "\\\\").replace('"', '\\"') + '"'


def loader_st():
    names = sorted(OPTS)
    sub = lambda: st.lists(st.sampled_from(names), min_size=0, max_size=4, unique=True)  # noqa: E731
    vals = st.fixed_dictionaries({k: OPTS[k] for k in names})
    return st.builds(
        lambda tk, tv, nk, nv, dk, dv, ck, cv, ok, ov: {"kind": "loader", "toml": {k: jsonable(tv[k]) for k in tk}, "natspec": {k: jsonable(nv[k]) for k in nk}, "devdoc": {k: jsonable(dv[k]) for k in dk}, "cli": {k: jsonable(cv[k]) for k in ck},
                                                        "other": {k: jsonable(ov[k]) for k in ok}},
        sub(), vals, sub(), vals, sub(), vals, sub(), vals, sub(), vals,
    )


def run_loader(case, workdir):
    from halmos.__main__ import load_config, with_devdoc, with_natspec

    layers = []
    argv = ["--root", workdir]
    tomlsrc = {k: unjson(v) for k, v in case["toml"].items() if not (k == "verbose")}
    path = os.path.join(workdir, "halmos.toml")
    if tomlsrc:
        with open(path, "w") as f:
            f.write("[global]\n")
            for k, v in tomlsrc.items():
                f.write(f"{k.replace('_', '-')} = {toml_value(k, v)}\n")
        layers.append(["config_file", dict(tomlsrc)])
    elif os.path.exists(path):
        os.remove(path)

    def to_args(d):
        out, eff = [], {}
        for k, v in d.items():
            v = unjson(v)
            u = unparse_opt(k, v)
            if u is None:
                continue
            out += u
            eff[k] = v
        return out, eff

    cli_args, cli_eff = to_args(case["cli"])
    nat_args, nat_eff = to_args(case["natspec"])
    dev_args, dev_eff = to_args(case["devdoc"])
    # annotations of a *sibling* function of the same contract: must not affect check_x()
    oth_args, _ = to_args(case.get("other", {}))
    try:
        cfg = load_config(argv + cli_args)
        if nat_args:
            cfg = with_natspec(cfg, "C", {"text": "some text @custom:halmos " + " ".join(shlex.quote(a) for a in nat_args) + "\n @dev more"})
        if dev_args or oth_args:
            methods = {}
            if oth_args:
                methods["check_y()"] = {"custom:halmos": " ".join(shlex.quote(a) for a in oth_args)}
                methods["check_x(uint256)"] = {"custom:halmos": " ".join(shlex.quote(a) for a in oth_args)}
            if dev_args:
                methods["check_x()"] = {"custom:halmos": " ".join(shlex.quote(a) for a in dev_args)}
            cj = {"metadata": {"output": {"devdoc": {"methods": methods}}}}
            cfg = with_devdoc(cfg, "check_x()", cj)
    except SystemExit as e:
        return [(["loader", "exit"], f"SystemExit({e.code}) for valid inputs toml={tomlsrc} cli={cli_args} natspec={nat_args} devdoc={dev_args}")]
    # reference: order of creation = config_file, command_line, contract_annotation, function_annotation
    if cli_eff:
        layers.append(["command_line", cli_eff])
    if nat_eff:
        layers.append(["contract_annotation", nat_eff])
    if dev_eff:
        layers.append(["function_annotation", dev_eff])
    exp = ref_fold(layers, defaults())
    fails = []
    for name, (ev, es) in exp.items():
        gv, gs = cfg.value_with_source(name)
        if not eqv(gv, ev) or gs != es:
            fails.append((["loader", name], f"{name}: got ({gv!r},{gs.name}) expected ({ev!r},{es.name}) toml={tomlsrc} cli={cli_args} natspec={nat_args} devdoc={dev_args} sibling={oth_args}"))
    return fails[:3]


# ---------------------------------------------------------------- annotation scoping through run_contract

def scope_st():
    t = st.builds(lambda t_, ann: {"t": t_, "loop": ann}, st.integers(0, 4), st.sampled_from([None, 1, 2, 3, 5, 7]))
    return st.builds(lambda tests, cli, src: {"kind": "scope", "tests": tests, "cli_loop": cli, "base_source": src}, st.lists(t, min_size=2, max_size=3), st.sampled_from([1, 2, 3, 5]), st.sampled_from(["config_file", "config_file", "command_line"]))


def run_scope(case):
    """every test function must behave as under its own effective --loop, whatever its siblings are
    annotated with: the function annotation if the base value comes from the config file, the base
    value if it was given on the command line (command line > function annotation); compared with a
    one-function contract run with that value and no annotation"""
    from halmos.config import ConfigSource, default_config

    from props import c10_bounds as c10
    from vfw import e2e

    def mk(loop, source):
        base = default_config().with_overrides(ConfigSource.config_file, loop=loop) if source == "config_file" else default_config()
        over = {"solver_command": e2e.YICES, "no_status": True, "solver_timeout_assertion": 30.0, "solver_timeout_branching": 0}
        if source == "command_line":
            over["loop"] = loop
        return base.with_overrides(ConfigSource.command_line, **over)

    fns = []
    for i, t in enumerate(case["tests"]):
        f = {"sig": f"check_s{i}(uint256)", "body": c10.sym_loop_body(t["t"], "panic")}
        if t["loop"] is not None:
            f["devdoc"] = f"--loop {t['loop']}"
        fns.append(f)
    cj, _, _ = e2e.artifact("T", fns)
    src = case.get("base_source", "config_file")
    r = e2e.run(cj, args=mk(case["cli_loop"], src), capture=False)
    got = {k: (v.exitcode, v.num_models, v.num_bounded_loops) for k, v in r.by_sig().items()}
    fails = []
    for i, t in enumerate(case["tests"]):
        sig = f"check_s{i}(uint256)"
        eff = t["loop"] if (t["loop"] is not None and src == "config_file") else case["cli_loop"]
        cj1, _, _ = e2e.artifact("T", [{"sig": sig, "body": c10.sym_loop_body(t["t"], "panic")}])
        r1 = e2e.run(cj1, args=mk(eff, "command_line"), capture=False)
        exp = {k: (v.exitcode, v.num_models, v.num_bounded_loops) for k, v in r1.by_sig().items()}.get(sig)
        if got.get(sig) != exp:
            fails.append((["scope", "function-annotation"], f"{sig} (t={t['t']}, own --loop {t['loop']}, {src} --loop {case['cli_loop']}, siblings {[x['loop'] for x in case['tests']]}): got {got.get(sig)} expected {exp} (as under --loop {eff})"))
    return fails


# ---------------------------------------------------------------- structured values

def value_st():
    ident = st.sampled_from(["a", "b", "xs", "a[0]", "s.x", "_p", "arr2"])
    return st.one_of(
        st.builds(lambda n, unit: {"kind": "value", "t": "timeout", "v": n, "unit": unit}, st.one_of(st.integers(0, 100000), st.sampled_from([0.5, 1.5, 0.25, 1500.5, 2.75]), st.floats(0, 1e6, allow_nan=False).map(lambda x: round(x, 3))), st.sampled_from(["ms", "s", "m", "h", ""])),
        st.builds(lambda xs: {"kind": "value", "t": "codes", "v": sorted(xs)}, st.sets(st.integers(0, 0xFF), max_size=5)),
        st.builds(lambda d: {"kind": "value", "t": "arrlen", "v": d}, st.dictionaries(ident, st.lists(st.integers(0, 300), min_size=1, max_size=4), max_size=4)),
        st.builds(lambda xs: {"kind": "value", "t": "csv", "v": xs}, st.lists(st.integers(0, 5000), min_size=1, max_size=6)),
        st.builds(lambda xs: {"kind": "value", "t": "events", "v": xs}, st.lists(st.sampled_from(["LOG", "SSTORE", "SLOAD"]), max_size=4)),
    )


def run_value(case):
    from halmos.config import ParseArrayLengths, ParseCSVInt, ParseCSVTraceEvent, ParseErrorCodes, ParseTimeout, TraceEvent

    t, v = case["t"], case["v"]
    fails = []
    try:
        if t == "timeout":
            unit = case["unit"]
            s = f"{v}{unit}"
            secs = float(v) * {"ms": 0.001, "s": 1, "m": 60, "h": 3600, "": 0.001}[unit]
            p = ParseTimeout.parse(s)
            if not eqv(p, secs):
                fails.append((["timeout", "parse"], f"parse({s!r}) = {p!r}, expected {secs!r}"))
            u = ParseTimeout.unparse(p)
            p2 = ParseTimeout.parse(u)
            if not eqv(p2, p):
                fails.append((["timeout", "roundtrip"], f"parse(unparse({p!r})) = parse({u!r}) = {p2!r}"))
        elif t == "codes":
            val = set(v)
            u = ParseErrorCodes.unparse(val)
            p = ParseErrorCodes.parse(u)
            if p != val:
                fails.append((["codes", "roundtrip"], f"parse(unparse({val})) = parse({u!r}) = {p}"))
            for s in (",".join(str(x) for x in v), ", ".join(hex(x) for x in v)):
                if v and ParseErrorCodes.parse(s) != val:
                    fails.append((["codes", "parse"], f"parse({s!r}) != {val}"))
        elif t == "arrlen":
            u = ParseArrayLengths.unparse(v)
            p = ParseArrayLengths.parse(u)
            if p != v:
                fails.append((["arrlen", "roundtrip"], f"parse(unparse({v})) = parse({u!r}) = {p}"))
            if ParseArrayLengths.unparse(p) != u:
                fails.append((["arrlen", "idempotent"], f"{u!r}"))
        elif t == "csv":
            u = ParseCSVInt.unparse(v)
            p = ParseCSVInt.parse(u)
            if p != v:
                fails.append((["csv", "roundtrip"], f"parse(unparse({v})) = parse({u!r}) = {p}"))
        elif t == "events":
            ev = [TraceEvent(x) for x in v]
            u = ParseCSVTraceEvent.unparse(ev)
            p = ParseCSVTraceEvent.parse(u)
            if p != ev:
                fails.append((["events", "roundtrip"], f"{v} -> {u!r} -> {p}"))
    except Exception as e:
        fails.append((["value", t, "raise", type(e).__name__], f"{case}: {e!r}"))
    return fails


MALFORMED = {
    "timeout": ["abc", "ms", "s", "1.2.3s", "ten", "1 0s", "5x", "--3"],
    "codes": ["", "0xZZ", "1,two", "x", "1;2", "{1}"],
    "arrlen": ["a", "a=", "a={", "a={1,2", "=1", "a={x}", "a=1,,b=2", "a=1 b=2x", "a={}", "a=-1"],
    "csv": ["", "a", "1;2", "1,b", "{1}", " , "],
    "events": ["LOGS", "log", "SSTORE;SLOAD", "LOG,FOO"],
}
FLAG = {"timeout": "--solver-timeout-assertion", "codes": "--panic-error-codes", "arrlen": "--array-lengths", "csv": "--default-array-lengths", "events": "--trace-events"}


def run_malformed(case):
    from halmos.config import ParseArrayLengths, ParseCSVInt, ParseCSVTraceEvent, ParseErrorCodes, ParseTimeout, arg_parser, toml_parser

    P = {"timeout": ParseTimeout, "codes": ParseErrorCodes, "arrlen": ParseArrayLengths, "csv": ParseCSVInt, "events": ParseCSVTraceEvent}[case["t"]]
    s = case["s"]
    fails = []
    try:
        r = P.parse(s)
        fails.append((["malformed-accepted", case["t"]], f"parse({s!r}) returned {r!r}"))
    except Exception:
        pass
    import contextlib
    import io

    try:
        with contextlib.redirect_stderr(io.StringIO()):
            ns = arg_parser().parse_args([FLAG[case["t"]], s])
        fails.append((["malformed-accepted-cli", case["t"]], f"argv {FLAG[case['t']]} {s!r} accepted: {getattr(ns, FLAG[case['t']][2:].replace('-', '_'))!r}"))
    except SystemExit as e:
        if e.code != 2:
            fails.append((["malformed-exit-code", case["t"]], f"exit {e.code}"))
    except Exception:
        pass
    try:
        r = toml_parser().parse_dict({"global": {FLAG[case["t"]][2:]: s}})
        fails.append((["malformed-accepted-toml", case["t"]], f"toml value {s!r} accepted: {r}"))
    except (Exception, SystemExit):
        pass
    return fails


def run_case(case, workdir=None):
    k = case["kind"]
    if k == "stack":
        return run_stack(case)
    if k == "loader":
        wd = workdir or os.path.join(os.environ.get("VERIF_HOME", "/verif"), ".work", "c18", str(os.getpid()))
        os.makedirs(wd, exist_ok=True)
        return run_loader(case, wd)
    if k == "value":
        return run_value(case)
    if k == "scope":
        return run_scope(case)
    return run_malformed(case)


def nontrivial(case):
    k = case["kind"]
    if k == "stack":
        ls = case["layers"]
        seen = {}
        for s, d in ls:
            for o in d:
                seen[o] = seen.get(o, 0) + 1
        return any(v >= 2 for v in seen.values()) or len({s for s, _ in ls}) < len(ls)
    if k == "loader":
        return sum(1 for x in ("toml", "natspec", "devdoc", "cli", "other") if case.get(x)) >= 2
    if k == "scope":
        return len({t["loop"] for t in case["tests"]}) >= 2
    if k == "value":
        v = case["v"]
        return (isinstance(v, (list, dict)) and len(v) >= 2) or (isinstance(v, float) and v != int(v))
    return True


def shards(tier):
    n = 1500 if tier == "quick" else 30000
    return [{"mode": "stack", "n": n} for _ in range(6)] + [{"mode": "loader", "n": n // 6} for _ in range(4)] + [{"mode": "value", "n": n} for _ in range(3)] + [{"mode": "malformed"}] + [{"mode": "scope", "n": n // 60} for _ in range(2)]


def run_shard(spec, seed, tier):
    import logging

    logging.getLogger("halmos").setLevel(logging.CRITICAL)
    acc = Acc()
    if spec["mode"] == "malformed":
        for t, ss in MALFORMED.items():
            for s in ss:
                case = {"kind": "malformed", "t": t, "s": s}
                acc.case(case, True, klass="malformed:" + t)
                for b, d in run_case(case):
                    acc.fail(b, case, d)
        return acc
    strat = {"stack": stack_st(), "loader": loader_st(), "value": value_st(), "scope": scope_st()}[spec["mode"]]

    def body(case):
        fails = run_case(case)
        acc.case(case, nontrivial(case), klass=case["kind"] + (":" + case["t"] if "t" in case else ""), sample=case)
        for b, d in fails:
            acc.fail(b, case, d)

    run_cases(strat, body, spec["n"], seed)
    return acc


def replay(case):
    return [{"bucket": b, "detail": d} for b, d in run_case(case)]
