"""Word-level reference semantics of the EVM ALU instructions (Yellow Paper, own code).
All values are Python ints in [0, 2^256)."""

M256 = (1 << 256) - 1
SIGN = 1 << 255


def s256(x):
    return x - (1 << 256) if x & SIGN else x


def u256(x):
    return x & M256


def alu(op: str, a: int, b: int = 0, c: int = 0) -> int:
    """a = top of stack, b = second, c = third"""
    if op == "ADD":
        return (a + b) & M256
    if op == "MUL":
        return (a * b) & M256
    if op == "SUB":
        return (a - b) & M256
    if op == "DIV":
        return 0 if b == 0 else a // b
    if op == "SDIV":
        if b == 0:
            return 0
        sa, sb = s256(a), s256(b)
        q = abs(sa) // abs(sb)
        return u256(-q if (sa < 0) != (sb < 0) else q)
    if op == "MOD":
        return 0 if b == 0 else a % b
    if op == "SMOD":
        if b == 0:
            return 0
        sa, sb = s256(a), s256(b)
        r = abs(sa) % abs(sb)
        return u256(-r if sa < 0 else r)
    if op == "ADDMOD":
        return 0 if c == 0 else (a + b) % c
    if op == "MULMOD":
        return 0 if c == 0 else (a * b) % c
    if op == "EXP":
        return pow(a, b, 1 << 256)
    if op == "SIGNEXTEND":
        if a >= 31:
            return b
        bit = a * 8 + 7
        mask = (1 << (bit + 1)) - 1
        if (b >> bit) & 1:
            return u256(b | ~mask)
        return b & mask
    if op == "LT":
        return int(a < b)
    if op == "GT":
        return int(a > b)
    if op == "SLT":
        return int(s256(a) < s256(b))
    if op == "SGT":
        return int(s256(a) > s256(b))
    if op == "EQ":
        return int(a == b)
    if op == "ISZERO":
        return int(a == 0)
    if op == "AND":
        return a & b
    if op == "OR":
        return a | b
    if op == "XOR":
        return a ^ b
    if op == "NOT":
        return (~a) & M256
    if op == "BYTE":
        return 0 if a >= 32 else (b >> (8 * (31 - a))) & 0xFF
    if op == "SHL":
        return 0 if a >= 256 else (b << a) & M256
    if op == "SHR":
        return 0 if a >= 256 else b >> a
    if op == "SAR":
        sb = s256(b)
        if a >= 256:
            return M256 if sb < 0 else 0
        return u256(sb >> a)
    raise ValueError(op)


ARITY = {
    "ADD": 2, "MUL": 2, "SUB": 2, "DIV": 2, "SDIV": 2, "MOD": 2, "SMOD": 2, "ADDMOD": 3, "MULMOD": 3,
    "EXP": 2, "SIGNEXTEND": 2, "LT": 2, "GT": 2, "SLT": 2, "SGT": 2, "EQ": 2, "ISZERO": 1, "AND": 2,
    "OR": 2, "XOR": 2, "NOT": 1, "BYTE": 2, "SHL": 2, "SHR": 2, "SAR": 2,
}

BOUNDARY = sorted(
    set(
        [0, 1, 2, 3, 7, 8, 15, 16, 30, 31, 32, 33, 255, 256, 257, 0xFF, 0xFFFF, 1 << 64, (1 << 64) - 1, (1 << 64) + 1,
         1 << 128, (1 << 128) - 1, (1 << 160) - 1, 1 << 160, 1 << 254, SIGN, SIGN - 1, SIGN + 1, M256, M256 - 1, M256 - 255, M256 - 256]
        + [1 << k for k in (4, 8, 16, 31, 32, 63, 100, 200, 248, 252)]
        + [(1 << k) - 1 for k in (8, 16, 32, 248, 252)]
        + [(1 << k) + 1 for k in (8, 16, 248)]
    )
)
