"""E2 — ground evaluator for z3 terms produced by halmos ("standard interpretation").

Evaluates a z3 term under a concrete valuation of its free constants, interpreting
    f_sha3_N(data)        as real keccak-256 of the N/8 bytes of data
    f_evm_bvudiv_N etc.   as the exact EVM operation (x/0 = 0, x%0 = 0, ...)
    f_evm_exp_256         as modular exponentiation
    f_evm_bvmul_N         as multiplication mod 2^N
and every native SMT-LIB bit-vector operator with its SMT-LIB meaning (bvudiv x 0 = ~0,
bvurem x 0 = x).  Plain recursive interpreter over the z3 AST; never calls simplify().

Array-sorted terms evaluate to ArrVal (dict + default).  Uninterpreted constants/functions
not bound by the Env raise Unbound.
"""

from __future__ import annotations

import z3
from z3 import z3core as _zc
from eth_hash.auto import keccak
from z3 import (
    Z3_OP_AND, Z3_OP_BADD, Z3_OP_BAND, Z3_OP_BASHR, Z3_OP_BLSHR, Z3_OP_BMUL, Z3_OP_BNEG,
    Z3_OP_BNOT, Z3_OP_BNUM, Z3_OP_BOR, Z3_OP_BSDIV, Z3_OP_BSDIV_I, Z3_OP_BSHL, Z3_OP_BSMOD,
    Z3_OP_BSMOD_I, Z3_OP_BSREM, Z3_OP_BSREM_I, Z3_OP_BSUB, Z3_OP_BUDIV, Z3_OP_BUDIV_I,
    Z3_OP_BUREM, Z3_OP_BUREM_I, Z3_OP_BXOR, Z3_OP_CONCAT, Z3_OP_CONST_ARRAY, Z3_OP_DISTINCT,
    Z3_OP_EQ, Z3_OP_EXTRACT, Z3_OP_FALSE, Z3_OP_IMPLIES, Z3_OP_ITE, Z3_OP_NOT, Z3_OP_OR,
    Z3_OP_SELECT, Z3_OP_SGEQ, Z3_OP_SGT, Z3_OP_SIGN_EXT, Z3_OP_SLEQ, Z3_OP_SLT, Z3_OP_STORE,
    Z3_OP_TRUE, Z3_OP_UGEQ, Z3_OP_UGT, Z3_OP_ULEQ, Z3_OP_ULT, Z3_OP_UNINTERPRETED, Z3_OP_XOR,
    Z3_OP_ZERO_EXT, Z3_OP_BCOMP, Z3_OP_REPEAT, Z3_OP_ROTATE_LEFT, Z3_OP_ROTATE_RIGHT,
    Z3_OP_BXNOR, Z3_OP_BNAND, Z3_OP_BNOR,
)


class Unbound(Exception):
    pass


class ArrVal:
    __slots__ = ("d", "default")

    def __init__(self, d=None, default=0):
        self.d = dict(d or {})
        self.default = default

    def get(self, k):
        return self.d.get(k, self.default)

    def store(self, k, v):
        n = ArrVal(self.d, self.default)
        n.d[k] = v
        return n

    def norm(self):
        if callable(self.default):
            return ("fn", id(self.default), tuple(sorted(self.d.items())))
        return (self.default, tuple(sorted((k, v) for k, v in self.d.items() if v != self.default)))

    def __eq__(self, o):
        return isinstance(o, ArrVal) and self.norm() == o.norm()

    def __hash__(self):
        return hash(self.norm())


def _signed(x, n):
    return x - (1 << n) if x >> (n - 1) else x


def evm_udiv(x, y, n):
    return 0 if y == 0 else x // y


def evm_urem(x, y, n):
    return 0 if y == 0 else x % y


def evm_sdiv(x, y, n):
    if y == 0:
        return 0
    sx, sy = _signed(x, n), _signed(y, n)
    q = abs(sx) // abs(sy)
    if (sx < 0) != (sy < 0):
        q = -q
    return q % (1 << n)


def evm_srem(x, y, n):
    if y == 0:
        return 0
    sx, sy = _signed(x, n), _signed(y, n)
    r = abs(sx) % abs(sy)
    if sx < 0:
        r = -r
    return r % (1 << n)


def smt_udiv(x, y, n):
    return (1 << n) - 1 if y == 0 else x // y


def smt_urem(x, y, n):
    return x if y == 0 else x % y


def smt_sdiv(x, y, n):
    if y == 0:
        return 1 if _signed(x, n) < 0 else (1 << n) - 1
    return evm_sdiv(x, y, n)


def smt_srem(x, y, n):
    if y == 0:
        return x
    return evm_srem(x, y, n)


def smt_smod(x, y, n):
    if y == 0:
        return x
    sx, sy = _signed(x, n), _signed(y, n)
    r = abs(sx) % abs(sy)
    if r == 0:
        return 0
    if sx >= 0 and sy >= 0:
        res = r
    elif sx < 0 and sy >= 0:
        res = -r + sy
    elif sx >= 0 and sy < 0:
        res = r + sy
    else:
        res = -r
    return res % (1 << n)


class Env:
    """valuation: consts name->int|bool|ArrVal ; funcs name->callable(*ints)->int"""

    def __init__(self, consts=None, funcs=None, default_const=None, default_array=None):
        self.consts = dict(consts or {})
        self.funcs = dict(funcs or {})
        # default_const(name, sort_kind, size) -> value, used for unbound constants if given
        self.default_const = default_const
        self.default_array = default_array

    def copy(self):
        e = Env(self.consts, self.funcs, self.default_const, self.default_array)
        return e


def _std_func(name, args, sizes, rsize):
    """standard interpretation of halmos' function symbols; returns None if not standard"""
    if name.startswith("f_sha3_"):
        nbits = int(name[len("f_sha3_"):])
        if nbits == 0:
            return int.from_bytes(keccak(b""), "big")
        return int.from_bytes(keccak(args[0].to_bytes(nbits // 8, "big")), "big")
    if name.startswith("f_evm_"):
        op, _, w = name[len("f_evm_"):].rpartition("_")
        n = int(w)
        x, y = args
        if op == "bvudiv":
            return evm_udiv(x, y, n)
        if op == "bvurem":
            return evm_urem(x, y, n)
        if op == "bvsdiv":
            return evm_sdiv(x, y, n)
        if op == "bvsrem":
            return evm_srem(x, y, n)
        if op == "bvmul":
            return (x * y) % (1 << n)
        if op == "exp":
            return pow(x, y, 1 << n)
    return None


def evaluate(term, env: Env, memo=None):
    """evaluate a z3 term to int (bit-vectors), bool, or ArrVal.
    Works on the raw C API (no Python wrapper objects per node) for speed."""
    if memo is None:
        memo = {}
    else:
        # memo is keyed by AST id: keep every evaluated root alive as long as the memo lives, so
        # that ids of temporaries cannot be recycled for different terms
        memo.setdefault("__keep__", []).append(term)
    ctx = term.ctx.ref()
    root = term.as_ast()
    get_id = _zc.Z3_get_ast_id
    rid = get_id(ctx, root)
    if rid in memo:
        return memo[rid]
    app_decl = _zc.Z3_get_app_decl
    decl_kind = _zc.Z3_get_decl_kind
    nargs_of = _zc.Z3_get_app_num_args
    arg_of = _zc.Z3_get_app_arg
    ast_kind = _zc.Z3_get_ast_kind
    stack = [(root, False)]
    while stack:
        t, expanded = stack.pop()
        tid = get_id(ctx, t)
        if tid in memo:
            continue
        ak = ast_kind(ctx, t)
        if ak == z3.Z3_NUMERAL_AST:
            memo[tid] = int(_zc.Z3_get_numeral_string(ctx, t))
            continue
        if ak != z3.Z3_APP_AST:
            raise NotImplementedError("symeval: quantifiers/vars are not supported")
        d = app_decl(ctx, t)
        k = decl_kind(ctx, d)
        n = nargs_of(ctx, t)
        if not expanded:
            if k == Z3_OP_ITE:
                c = arg_of(ctx, t, 0)
                cid = get_id(ctx, c)
                if cid not in memo:
                    stack.append((t, False))
                    stack.append((c, False))
                    continue
                br = arg_of(ctx, t, 1 if memo[cid] else 2)
                bid = get_id(ctx, br)
                if bid not in memo:
                    stack.append((t, False))
                    stack.append((br, False))
                    continue
                memo[tid] = memo[bid]
                continue
            if n:
                stack.append((t, True))
                for i in range(n):
                    a = arg_of(ctx, t, i)
                    if get_id(ctx, a) not in memo:
                        stack.append((a, False))
                continue
        args = [arg_of(ctx, t, i) for i in range(n)]
        vals = [memo[get_id(ctx, a)] for a in args]
        memo[tid] = _apply_raw(ctx, t, d, k, args, vals, env)
    return memo[rid]


def _bvsize(ctx, a):
    return _zc.Z3_get_bv_sort_size(ctx, _zc.Z3_get_sort(ctx, a))


def _apply_raw(ctx, t, d, k, args, a, env):
    if k == Z3_OP_BNUM:
        return int(_zc.Z3_get_numeral_string(ctx, t))
    if k == Z3_OP_TRUE:
        return True
    if k == Z3_OP_FALSE:
        return False
    if k == Z3_OP_UNINTERPRETED:
        name = _zc.Z3_get_symbol_string(ctx, _zc.Z3_get_decl_name(ctx, d))
        if not a:
            if name in env.consts:
                return env.consts[name]
            if name == "f_sha3_0":
                return int.from_bytes(keccak(b""), "big")
            if name in env.funcs:
                return env.funcs[name]()
            s = _zc.Z3_get_sort(ctx, t)
            if _zc.Z3_get_sort_kind(ctx, s) == z3.Z3_ARRAY_SORT:
                if env.default_array is not None:
                    v = env.default_array(name)
                    if v is not None:
                        env.consts[name] = v
                        return v
            elif env.default_const is not None:
                v = env.default_const(name, s)
                if v is not None:
                    env.consts[name] = v
                    return v
            raise Unbound(name)
        if name in env.funcs:
            return env.funcs[name](*a)
        v = _std_func(name, a, None, None) if not getattr(env, "no_std", False) else None
        if v is None:
            df = getattr(env, "default_func", None)
            if df is not None:
                rs = _zc.Z3_get_sort(ctx, t)
                rbits = _zc.Z3_get_bv_sort_size(ctx, rs) if _zc.Z3_get_sort_kind(ctx, rs) == z3.Z3_BV_SORT else 0
                v = df(name, tuple(a), rbits)
            if v is None:
                raise Unbound(name)
        return v
    if k == Z3_OP_EQ:
        return a[0] == a[1]
    if k == Z3_OP_DISTINCT:
        return len(set(a)) == len(a)
    if k == Z3_OP_NOT:
        return not a[0]
    if k == Z3_OP_AND:
        return all(a)
    if k == Z3_OP_OR:
        return any(a)
    if k == Z3_OP_XOR:
        r = False
        for x in a:
            r = r != bool(x)
        return r
    if k == Z3_OP_IMPLIES:
        return (not a[0]) or a[1]
    if k == Z3_OP_SELECT:
        arr = a[0]
        if callable(arr.default) and a[1] not in arr.d:
            return arr.default(a[1])
        return arr.get(a[1])
    if k == Z3_OP_STORE:
        return a[0].store(a[1], a[2])
    if k == Z3_OP_CONST_ARRAY:
        return ArrVal({}, a[0])

    if k in _CMP:
        x, y = a
        if k == Z3_OP_ULEQ:
            return x <= y
        if k == Z3_OP_ULT:
            return x < y
        if k == Z3_OP_UGEQ:
            return x >= y
        if k == Z3_OP_UGT:
            return x > y
        n = _bvsize(ctx, args[0])
        x, y = _signed(x, n), _signed(y, n)
        if k == Z3_OP_SLEQ:
            return x <= y
        if k == Z3_OP_SLT:
            return x < y
        if k == Z3_OP_SGEQ:
            return x >= y
        return x > y

    n = _bvsize(ctx, t)
    M = (1 << n) - 1
    if k == Z3_OP_BADD:
        return sum(a) & M
    if k == Z3_OP_BSUB:
        r = a[0]
        for x in a[1:]:
            r -= x
        return r & M
    if k == Z3_OP_BMUL:
        r = 1
        for x in a:
            r = (r * x) & M
        return r
    if k == Z3_OP_BNEG:
        return (-a[0]) & M
    if k == Z3_OP_BAND:
        r = M
        for x in a:
            r &= x
        return r
    if k == Z3_OP_BOR:
        r = 0
        for x in a:
            r |= x
        return r
    if k == Z3_OP_BXOR:
        r = 0
        for x in a:
            r ^= x
        return r
    if k == Z3_OP_BNOT:
        return (~a[0]) & M
    if k == Z3_OP_BXNOR:
        return (~(a[0] ^ a[1])) & M
    if k == Z3_OP_BNAND:
        return (~(a[0] & a[1])) & M
    if k == Z3_OP_BNOR:
        return (~(a[0] | a[1])) & M
    if k in (Z3_OP_BUDIV, Z3_OP_BUDIV_I):
        return smt_udiv(a[0], a[1], n)
    if k in (Z3_OP_BUREM, Z3_OP_BUREM_I):
        return smt_urem(a[0], a[1], n)
    if k in (Z3_OP_BSDIV, Z3_OP_BSDIV_I):
        return smt_sdiv(a[0], a[1], n)
    if k in (Z3_OP_BSREM, Z3_OP_BSREM_I):
        return smt_srem(a[0], a[1], n)
    if k in (Z3_OP_BSMOD, Z3_OP_BSMOD_I):
        return smt_smod(a[0], a[1], n)
    if k == Z3_OP_BSHL:
        return (a[0] << a[1]) & M if a[1] < n else 0
    if k == Z3_OP_BLSHR:
        return a[0] >> a[1] if a[1] < n else 0
    if k == Z3_OP_BASHR:
        s = _signed(a[0], n)
        sh = a[1] if a[1] < n else n
        return (s >> sh) & M
    if k == Z3_OP_CONCAT:
        r = 0
        for i, x in enumerate(a):
            r = (r << _bvsize(ctx, args[i])) | x
        return r
    if k == Z3_OP_EXTRACT:
        hi = _zc.Z3_get_decl_int_parameter(ctx, d, 0)
        lo = _zc.Z3_get_decl_int_parameter(ctx, d, 1)
        return (a[0] >> lo) & ((1 << (hi - lo + 1)) - 1)
    if k == Z3_OP_ZERO_EXT:
        return a[0]
    if k == Z3_OP_SIGN_EXT:
        m = _bvsize(ctx, args[0])
        return _signed(a[0], m) & M
    if k == Z3_OP_BCOMP:
        return 1 if a[0] == a[1] else 0
    if k == Z3_OP_REPEAT:
        m = _bvsize(ctx, args[0])
        r = 0
        for _ in range(_zc.Z3_get_decl_int_parameter(ctx, d, 0)):
            r = (r << m) | a[0]
        return r
    name = _zc.Z3_get_symbol_string(ctx, _zc.Z3_get_decl_name(ctx, d))
    raise NotImplementedError(f"symeval: unsupported operator {name} kind={k}")


_CMP = frozenset((Z3_OP_ULEQ, Z3_OP_ULT, Z3_OP_UGEQ, Z3_OP_UGT, Z3_OP_SLEQ, Z3_OP_SLT, Z3_OP_SGEQ, Z3_OP_SGT))


def mentions(term, pred, _seen=None) -> bool:
    """does any declaration name in term satisfy pred?"""
    seen = set() if _seen is None else _seen
    stack = [term]
    while stack:
        t = stack.pop()
        i = t.get_id()
        if i in seen:
            continue
        seen.add(i)
        if t.decl().kind() == Z3_OP_UNINTERPRETED and pred(t.decl().name()):
            return True
        for j in range(t.num_args()):
            stack.append(t.arg(j))
    return False


def free_symbols(term, acc=None, _seen=None):
    """collect {name: (kind, sort)} of uninterpreted constants and functions"""
    acc = {} if acc is None else acc
    seen = set() if _seen is None else _seen
    stack = [term]
    while stack:
        t = stack.pop()
        i = t.get_id()
        if i in seen:
            continue
        seen.add(i)
        if t.decl().kind() == Z3_OP_UNINTERPRETED:
            acc[t.decl().name()] = ("const" if t.num_args() == 0 else "func", t.sort())
        for j in range(t.num_args()):
            stack.append(t.arg(j))
    return acc


def _is_array_def(c):
    """cond of the form  arrayvar == <array term>  (halmos' definitional equalities)"""
    if c.decl().kind() != Z3_OP_EQ:
        return None
    lhs, rhs = c.arg(0), c.arg(1)
    if lhs.sort().kind() != z3.Z3_ARRAY_SORT:
        return None
    if lhs.decl().kind() == Z3_OP_UNINTERPRETED and lhs.num_args() == 0:
        return lhs, rhs
    if rhs.decl().kind() == Z3_OP_UNINTERPRETED and rhs.num_args() == 0:
        return rhs, lhs
    return None


def eval_conditions(conds, env: Env, assume=lambda name: name.startswith("f_inv_sha3")):
    """evaluate path conditions in order.  Definitional array equalities bind the new array
    name; conditions that mention an assumption symbol (hash-inverse functions) are skipped.
    Returns (all_true, index_of_first_false_or_None, skipped_count)"""
    memo = {}
    skipped = 0
    for i, c in enumerate(conds):
        d = _is_array_def(c)
        if d is not None:
            var, rhs = d
            name = var.decl().name()
            if name not in env.consts:
                env.consts[name] = evaluate(rhs, env, memo)
                continue
        if mentions(c, assume):
            skipped += 1
            continue
        v = evaluate(c, env, memo)
        if not v:
            return False, i, skipped
    return True, None, skipped
