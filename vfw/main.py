import argparse
import os
import sys


def main():
    ap = argparse.ArgumentParser(prog="check")
    ap.add_argument("property")
    ap.add_argument("--tier", default=os.environ.get("VERIF_TIER", "quick"), choices=["quick", "thorough"])
    ap.add_argument("--replay", default=None)
    ap.add_argument("--seed", type=int, default=None)
    ap.add_argument("--jobs", type=int, default=None)
    a = ap.parse_args()
    seed = a.seed if a.seed is not None else int(os.environ.get("VERIF_SEED", "1") or 1)
    from vfw.runner import run_check

    try:
        rc = run_check(a.property.upper(), a.tier, seed, a.replay, a.jobs)
    except SystemExit:
        raise
    except BaseException:
        import traceback

        traceback.print_exc()
        print(f"HARNESS-ERROR property={a.property}: runner crashed; inconclusive")
        rc = 2
    sys.stdout.flush()
    sys.exit(rc)


if __name__ == "__main__":
    main()
