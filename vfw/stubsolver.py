#!/venv/bin/python
"""Scripted stand-in for an SMT solver (C05/C16).

usage: stubsolver.py <query.smt2>     (script path in env STUB_SCRIPT)
The script is a JSON object {marker_hex: {"reply": kind, "delay": seconds}}.  The query belongs to
the marker that occurs *positively* in one of its assertions (not under `not`/`distinct`).
Reply kinds: sat | sat_abstract | unsat | unsat_emptycore | unsat_err | unknown | hang | empty | garbage | exit3 | sigkill
"""
import json
import os
import re
import signal
import sys
import time


def asserts(text):
    out, i = [], 0
    while True:
        i = text.find("(assert", i)
        if i < 0:
            return out
        depth, j = 0, i
        while j < len(text):
            if text[j] == "(":
                depth += 1
            elif text[j] == ")":
                depth -= 1
                if depth == 0:
                    break
            j += 1
        out.append(text[i : j + 1])
        i = j + 1


def main():
    path = sys.argv[-1]
    text = open(path).read()
    script = json.load(open(os.environ["STUB_SCRIPT"]))
    log = os.environ.get("STUB_LOG")
    mine = None
    for a in asserts(text):
        if "(not" in a or "distinct" in a:
            continue
        for m in script:
            if m == "default":
                continue
            if m in a.lower() or f"bv{int(m, 16)} " in a:
                mine = m
    spec = script.get(mine) or script.get("default") or {"reply": "unsat", "delay": 0}
    if log:
        with open(log, "a") as f:
            f.write(json.dumps({"query": os.path.basename(path), "marker": mine, "reply": spec["reply"], "t": time.time()}) + "\n")
    time.sleep(spec.get("delay", 0))
    kind = spec["reply"]
    decls = re.findall(r"\(declare-fun (\|?p_[^ |]+\|?) \(\) \(_ BitVec (\d+)\)\)", text)
    model = "".join(f"(define-fun {n} () (_ BitVec {w}) (_ bv{(int(mine, 16) if mine else 0) % (1 << int(w))} {w}))\n" for n, w in decls)
    if kind == "sat":
        sys.stdout.write("sat\n(\n" + model + ")\n")
    elif kind == "sat_abstract":
        sys.stdout.write("sat\n(\n" + model + "(define-fun f_evm_bvmul_256 ((x!0 (_ BitVec 256)) (x!1 (_ BitVec 256))) (_ BitVec 256) (_ bv0 256))\n)\n")
    elif kind == "unsat":
        core = " ".join(f"<{i}>" for i in re.findall(r":named <(\d+)>", text))
        sys.stdout.write("unsat\n" + (f"({core})\n" if "produce-unsat-cores" in text else ""))
    elif kind == "unsat_emptycore":
        # a solver may answer (get-unsat-core) with an empty list
        sys.stdout.write("unsat\n()\n")
    elif kind == "unsat_err":
        sys.stdout.write('unsat\n(error "line 7 column 10: model is not available")\n')
        sys.stdout.flush()
        sys.exit(1)
    elif kind == "unknown":
        sys.stdout.write("unknown\n")
    elif kind == "hang":
        time.sleep(120)
    elif kind == "empty":
        pass
    elif kind == "garbage":
        sys.stdout.write("segfault at 0xdeadbeef\nsat maybe\n")
    elif kind == "exit3":
        sys.exit(3)
    elif kind == "sigkill":
        sys.stdout.flush()
        os.kill(os.getpid(), signal.SIGKILL)
    sys.stdout.flush()


if __name__ == "__main__":
    main()
