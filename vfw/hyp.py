"""Hypothesis glue: seeded, database-less, deadline-less generation in *collect* mode
(the property body records mismatches instead of raising, so one shallow defect does not end
the campaign), plus generic ddmin for list-shaped cases."""

from __future__ import annotations

import hypothesis
from hypothesis import HealthCheck, Phase, given, settings
from hypothesis import strategies as st  # noqa: F401  (re-export)


def mk_settings(n, shrink=False, steps=None):
    kw = dict(
        max_examples=n,
        database=None,
        deadline=None,
        derandomize=False,
        report_multiple_bugs=False,
        suppress_health_check=list(HealthCheck),
        phases=[Phase.generate] + ([Phase.shrink] if shrink else []),
        print_blob=False,
    )
    if steps is not None:
        kw["stateful_step_count"] = steps
    return settings(**kw)


def run_cases(strategy, body, n, seed):
    """draw n cases from `strategy` (seeded) and call body(case) for each"""

    @hypothesis.seed(seed)
    @mk_settings(n)
    @given(strategy)
    def _t(case):
        body(case)

    _t()


def ddmin(items: list, fails) -> list:
    """classic delta debugging over a list; fails(list) -> bool"""
    items = list(items)
    n = 2
    while len(items) >= 2:
        chunk = max(1, len(items) // n)
        reduced = False
        for i in range(0, len(items), chunk):
            cand = items[:i] + items[i + chunk :]
            if cand and fails(cand):
                items = cand
                n = max(n - 1, 2)
                reduced = True
                break
        if not reduced:
            if chunk == 1:
                break
            n = min(len(items), n * 2)
    return items
