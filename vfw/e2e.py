"""E4 — end-to-end engine: hand-assembled Foundry-style artifacts (dispatcher + functions written in
the vfw.gen DSL, JSON ABI, methodIdentifiers, devdoc annotations), driven through
halmos.__main__.run_contract without forge; log capture; counterexample Exec capture; concrete
replay of a test function on the reference EVM from the post-setUp state.
"""

from __future__ import annotations

import contextlib
import io
import logging

from eth_hash.auto import keccak

from vfw import asm, gen, refevm, sym

FOUNDRY_TEST = 0x7FA9385BE102AC3EAC297483DD6233D62B3E1496
FOUNDRY_CALLER = 0x1804C8AB1F12E6BBF3894D4083F33E07309D1F38
HEVM = refevm.HEVM
PANIC_SEL = bytes.fromhex("4e487b71")
FAIL_PAYLOAD = bytes.fromhex(
    "70ca10bb"
    + "0000000000000000000000007109709ecfa91a80626ff3989d68f67f5b1dd12d"
    + "6661696c65640000000000000000000000000000000000000000000000000000"
    + "0000000000000000000000000000000000000000000000000000000000000001"
)
ASSERT_TRUE_FALSE = bytes.fromhex("0c9fd581") + bytes(32)  # assertTrue(false)


def selector(sig: str) -> str:
    return keccak(sig.encode())[:4].hex()


def arg(i):
    """i-th static argument word of the current function"""
    return ["cdo", 4 + 32 * i]


def panic_stmts(code=1):
    return [["memw", 0, (PANIC_SEL + code.to_bytes(32, "big")).hex()], ["revert", 0, 36]]


def failflag_stmts():
    return [["memw", 0x500, FAIL_PAYLOAD.hex()], ["xcall", HEVM, 0x500, len(FAIL_PAYLOAD), 0, 0], ["stop"]]


def vmassert_stmts():
    return [["memw", 0x500, ASSERT_TRUE_FALSE.hex()], ["xcall", HEVM, 0x500, len(ASSERT_TRUE_FALSE), 0, 0], ["stop"]]


def fail_stmts(kind, code=1):
    if kind == "panic":
        return panic_stmts(code)
    if kind == "failflag":
        return failflag_stmts()
    if kind == "vmassert":
        return vmassert_stmts()
    if kind == "revert":
        return [["revert", 0, 0]]
    raise ValueError(kind)


def dispatcher(functions) -> bytes:
    """functions: list of {"sig": "check_x(uint256)", "body": [stmts]}; unknown selector -> revert"""
    c = gen.Compiler()
    items = [("PUSH", 0), "CALLDATALOAD", ("PUSH", 224), "SHR"]
    for i, f in enumerate(functions):
        items += ["DUP1", ("PUSHN", 4, int(selector(f["sig"]), 16)), "EQ", ("PUSHL", f"F{i}"), "JUMPI"]
    items += [("PUSH", 0), ("PUSH", 0), "REVERT"]
    for i, f in enumerate(functions):
        items += [("LABEL", f"F{i}"), "POP"] + c.stmts(f["body"]) + ["STOP"]
    return asm.assemble(items)


def abi_item(sig, inputs=None, mutability="nonpayable", outputs=None):
    name = sig.split("(")[0]
    if inputs is None:
        types = sig[sig.index("(") + 1 : -1]
        inputs = [{"name": f"p{i}", "type": t, "internalType": t} for i, t in enumerate([t for t in types.split(",") if t])]
    return {"type": "function", "name": name, "inputs": inputs, "outputs": outputs or [], "stateMutability": mutability}


def artifact(name, functions, constructor_body=None, filename=None):
    """functions: [{"sig", "body", "inputs"?, "mutability"?, "devdoc"?}] -> (contract_json, creation, runtime)"""
    runtime = dispatcher(functions)
    prefix = gen.compile_body(constructor_body) if constructor_body else b""
    creation = asm.creation_code(runtime, prefix)
    filename = filename or f"{name}.sol"
    methods = {}
    for f in functions:
        if f.get("devdoc"):
            methods[f["sig"]] = {"custom:halmos": f["devdoc"]}
    cj = {
        "abi": [abi_item(f["sig"], f.get("inputs"), f.get("mutability", "nonpayable"), f.get("outputs")) for f in functions],
        "methodIdentifiers": {f["sig"]: selector(f["sig"]) for f in functions},
        "bytecode": {"object": "0x" + creation.hex(), "linkReferences": {}},
        "deployedBytecode": {"object": "0x" + runtime.hex(), "linkReferences": {}, "sourceMap": ""},
        "metadata": {"compiler": {"version": "0.8.26"}, "output": {"devdoc": {"methods": methods}}},
        "ast": {"absolutePath": f"test/{filename}", "nodes": [{"nodeType": "ContractDefinition", "name": name, "contractKind": "contract", "id": 1}]},
    }
    return cj, creation, runtime


class Captured:
    def __init__(self):
        self.cex = []  # (path_id, Exec, panic_found, description)
        self.solved = []  # one record per solver answer: path_id, ex, model, result, probe, fun
        self.submitted = 0  # queries handed to the solver pool

    def wait_solved(self, timeout=60.0):
        """solver callbacks of in-target assertion probes are not awaited by run_contract: wait for
        them (their reports are printed from the callback)"""
        import time

        t0 = time.time()
        while len(self.solved) < self.submitted and time.time() - t0 < timeout:
            time.sleep(0.01)
        return len(self.solved) >= self.submitted


@contextlib.contextmanager
def capture_cex(keep_exec=True):
    """harness-side wrapper around CounterexampleHandler.handle_assertion_violation; keep_exec=False
    records the failing paths without holding their Exec (and therefore their z3 terms) alive"""
    import halmos.__main__ as M

    cap = Captured()
    orig = M.CounterexampleHandler.handle_assertion_violation

    exs = {}  # (handler identity, path_id) -> Exec, held by the harness (main thread) only

    def wrapper(self, path_id, ex, panic_found, description=None):
        cap.cex.append({"path_id": path_id, "ex": ex if keep_exec else None, "panic": panic_found, "probe": self.is_probe, "fun": self.ctx.info.sig, "description": description})
        if keep_exec:
            exs[(id(self), path_id)] = (self, ex)  # holding the handler keeps its id unique
        r = orig(self, path_id, ex, panic_found, description)
        cap.submitted += 1
        return r

    orig_cb = M.CounterexampleHandler._solve_end_to_end_callback

    def callback(self, future, *a, **k):
        path_ctx = k.get("path_ctx")
        try:
            return orig_cb(self, future, *a, **k)
        finally:
            so = next((o for o in reversed(list(self.ctx.solver_outputs)) if o.path_id == path_ctx.path_id), None)
            cap.solved.append({"path_id": path_ctx.path_id, "ex": exs.get((id(self), path_ctx.path_id), (None, None))[1], "model": so.model if so else None, "result": str(so.result) if so else None,
                               "probe": self.is_probe, "fun": self.ctx.info.sig})

    M.CounterexampleHandler.handle_assertion_violation = wrapper
    M.CounterexampleHandler._solve_end_to_end_callback = callback
    try:
        yield cap
    finally:
        M.CounterexampleHandler.handle_assertion_violation = orig
        M.CounterexampleHandler._solve_end_to_end_callback = orig_cb


YICES = "/venv/bin/yices-smt2 --smt2-model-format --bvconst-in-decimal"
Z3 = "/venv/bin/z3"


def mk_args(**over):
    over.setdefault("solver_command", YICES)
    over.setdefault("no_status", True)
    return sym.base_config(**over)


class RunResult:
    def __init__(self, results, stdout, logs, cap, ctx):
        self.results = results  # list[TestResult]
        self.stdout = stdout
        self.logs = logs
        self.cap = cap
        self.ctx = ctx

    def by_sig(self):
        return {r.name: r for r in self.results}

    def warnings(self):
        return self.logs.warnings()


def run(test_cj, name="T", funsigs=None, args=None, others=None, contract_args=None, capture=True):
    """run_contract on a hand-assembled test contract.  others: {ContractName: contract_json} that
    setUp may deploy (needed for name resolution of invariant targets)."""
    import halmos.__main__ as M
    from halmos.calldata import get_abi
    from halmos.solve import ContractContext

    args = args or mk_args()
    mi = test_cj["methodIdentifiers"]
    if funsigs is None:
        funsigs = [s for s in mi if s.startswith(("check_", "invariant_", "test_"))]
    bom = {f"{name}.sol": {name: (test_cj, "contract", None)}}
    for oname, ocj in (others or {}).items():
        bom.setdefault(f"{oname}.sol", {})[oname] = (ocj, "contract", None)
    for oname, ocj in list((others or {}).items()) + [(name, test_cj)]:
        ocj.pop("abi_dict", None)
    ctx = ContractContext(
        args=contract_args or args, name=name, funsigs=list(funsigs),
        creation_hexcode=test_cj["bytecode"]["object"][2:], deployed_hexcode=test_cj["deployedBytecode"]["object"][2:],
        abi=get_abi(test_cj), method_identifiers=mi, contract_json=test_cj, libs={}, build_out_map=bom,
    )
    out = io.StringIO()
    with sym.LogCapture() as logs, capture_cex(keep_exec=bool(capture)) as cap, contextlib.redirect_stdout(out):
        # the unique-warning filter is process-global: clear it so that every run reports on its own
        results = M.run_contract(ctx)
        cap.wait_solved()
    return RunResult(results, out.getvalue(), logs, cap, ctx)


# ---------------------------------------------------------------- concrete replay on the reference EVM

def ref_setup(test_cj, others_code=None, cheats=None, setup_sig="setUp()"):
    """deploy the test contract (constructor), run setUp() concretely; returns (world, evm)"""
    w = refevm.World()
    w.accounts[FOUNDRY_TEST] = refevm.Account(code=b"", balance=0xFFFFFFFFFFFFFFFFFFFFFFFF)
    evm = refevm.EVM(w, new_addresses=[0xAAAA0000 + 1 + k + 1 for k in range(8)], cheats=cheats)
    creation = bytes.fromhex(test_cj["bytecode"]["object"][2:])
    msg = refevm.Msg(caller=FOUNDRY_CALLER, target=FOUNDRY_TEST, code_addr=FOUNDRY_TEST, value=0, data=b"", origin=FOUNDRY_CALLER, is_create=True, code=creation)
    res = evm.run_tx(msg)
    if res.status != "success":
        raise RuntimeError("constructor failed on the reference: " + res.status)
    w.accounts[FOUNDRY_TEST].code = res.data
    if setup_sig in test_cj["methodIdentifiers"]:
        res = call(evm, bytes.fromhex(selector(setup_sig)))
        if res.status != "success":
            raise RuntimeError("setUp failed on the reference: " + res.status)
    return w, evm


def call(evm, data, target=FOUNDRY_TEST, caller=FOUNDRY_CALLER, value=0, origin=FOUNDRY_CALLER):
    msg = refevm.Msg(caller=caller, target=target, code_addr=target, value=value, data=data, origin=origin)
    return evm.run_tx(msg, transfer_value=bool(value))


def failed(res, panic_codes=(1,)):
    """does the concrete run end in a configured Panic code (fail flag / vm.assert are reported
    through evm.cheats)"""
    if res.status == "revert" and len(res.data) == 36 and res.data[:4] == PANIC_SEL:
        code = int.from_bytes(res.data[4:], "big")
        return (not panic_codes) or code in panic_codes
    return False
