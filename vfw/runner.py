"""vfw runner: shards a property's generated-input search over worker processes, merges
the counters, buckets failures by root-cause signature, matches them against the
committed known-findings file, writes replay files and the evidence file.

A property module (props/cNN_*.py) provides:

    PROPERTY = "C19"
    LEVEL = "exploration"
    RULE = "... how cases are generated and what makes one non-trivial ..."
    ASSUMPTIONS = [...]
    def shards(tier) -> list[dict]            JSON-able shard specs (one worker process each)
    def run_shard(spec, seed, tier) -> Acc    runs the search for one shard
    def replay(case) -> list[Failure]         re-runs one saved case (bypassing generators)
    def shrink(case, same_bucket) -> case     optional, domain-specific minimisation

Exit codes: 0 property held on everything explored (or only known findings),
1 violation (with VIOLATION line), 2 harness error / inconclusive.
"""

from __future__ import annotations

import hashlib
import importlib
import json
import multiprocessing as mp
import os
import sys
import time
import traceback

HOME = os.environ.get("VERIF_HOME", os.path.dirname(os.path.dirname(os.path.abspath(__file__))))
# where evidence/ and replays/ are written: /verif itself, except for sensitivity runs against a
# scratch copy of the repository (seeded/matrix.sh), which must not overwrite the real evidence
OUT = os.environ.get("VERIF_OUT", HOME)

MODULES = {
    "C01": "props.c01_sound",
    "C02": "props.c02_complete",
    "C03": "props.c03_pass",
    "C04": "props.c04_cex",
    "C05": "props.c05_verdict",
    "C06": "props.c06_words",
    "C07": "props.c07_bytevec",
    "C08": "props.c08_storage",
    "C09": "props.c09_calls",
    "C10": "props.c10_bounds",
    "C11": "props.c11_query",
    "C12": "props.c12_calldata",
    "C13": "props.c13_asserts",
    "C14": "props.c14_cheats",
    "C15": "props.c15_invariant",
    "C16": "props.c16_cache",
    "C17": "props.c17_procs",
    "C18": "props.c18_config",
    "C19": "props.c19_decode",
    "C20": "props.c20_isolation",
}


def jhash(obj) -> str:
    s = json.dumps(obj, sort_keys=True, default=str)
    return hashlib.sha1(s.encode()).hexdigest()[:16]


def derive_seed(seed: int, prop: str, shard: int) -> int:
    h = hashlib.sha256(f"{seed}/{prop}/{shard}".encode()).digest()
    return int.from_bytes(h[:6], "big")


class Acc:
    """Accumulator for one shard (picklable / JSON-able through .dump())."""

    MAX_SAMPLES = 4
    MAX_FAIL_PER_BUCKET = 3

    def __init__(self):
        self.evaluations = 0
        self.nontrivial = set()
        self.hist = {}
        self.samples = []
        self.failures = {}  # bucket-key -> list of {bucket, case, detail}
        self.excluded = {}
        self.exhaustive = None
        self.extra = {}

    def case(self, case_key, nontrivial: bool, klass=None, sample=None):
        """count one generated case; case_key = JSON-able identity used for distinctness"""
        self.evaluations += 1
        if nontrivial:
            self.nontrivial.add(case_key if isinstance(case_key, str) else jhash(case_key))
        if klass is not None:
            for k in klass if isinstance(klass, (list, tuple, set)) else [klass]:
                self.hist[k] = self.hist.get(k, 0) + 1
        if len(self.samples) < self.MAX_SAMPLES and nontrivial:
            if sample is None:
                # default: the case identity itself (clipped)
                txt = case_key if isinstance(case_key, str) else json.dumps(case_key, default=str)
                sample = txt if len(txt) <= 1500 else txt[:1500] + "..."
            self.samples.append(sample)

    def count(self, klass, n=1):
        self.hist[klass] = self.hist.get(klass, 0) + n

    def exclude(self, why, n=1):
        self.excluded[why] = self.excluded.get(why, 0) + n

    def fail(self, bucket, case, detail=""):
        """record an oracle mismatch; bucket = list of strings (root-cause signature)"""
        key = json.dumps(bucket)
        lst = self.failures.setdefault(key, [])
        if len(lst) < self.MAX_FAIL_PER_BUCKET:
            lst.append({"bucket": bucket, "case": case, "detail": str(detail)[:4000]})
        self.count("FAIL:" + "/".join(map(str, bucket)))

    def absorb(self, d):
        """merge the dump() of another Acc (e.g. one filled in a forked child) into this one"""
        self.evaluations += d["evaluations"]
        self.nontrivial.update(d["nontrivial"])
        for k, v in d["hist"].items():
            self.hist[k] = self.hist.get(k, 0) + v
        for k, v in d["excluded"].items():
            self.excluded[k] = self.excluded.get(k, 0) + v
        for s_ in d["samples"]:
            if len(self.samples) < self.MAX_SAMPLES:
                self.samples.append(s_)
        for key, lst in d["failures"].items():
            cur = self.failures.setdefault(key, [])
            cur.extend(lst[: max(0, self.MAX_FAIL_PER_BUCKET - len(cur))])
        for k, v in d["extra"].items():
            if isinstance(v, (int, float)) and isinstance(self.extra.get(k, 0), (int, float)):
                self.extra[k] = self.extra.get(k, 0) + v
            else:
                self.extra[k] = v

    def dump(self):
        return {
            "evaluations": self.evaluations,
            "nontrivial": sorted(self.nontrivial),
            "hist": self.hist,
            "samples": self.samples,
            "failures": self.failures,
            "excluded": self.excluded,
            "exhaustive": self.exhaustive,
            "extra": self.extra,
        }


def _worker(args):
    modname, spec, seed, tier, idx = args
    t0 = time.time()
    try:
        import faulthandler

        # a shard that is still running shortly before the watchdog fires dumps its stacks to stderr
        faulthandler.dump_traceback_later(max(30.0, float(os.environ.get("VFW_SHARD_BUDGET", "900")) - 20.0), exit=False)
        mod = importlib.import_module(modname)
        acc = mod.run_shard(spec, seed, tier)
        faulthandler.cancel_dump_traceback_later()
        d = acc.dump()
        d["wall"] = time.time() - t0
        d["idx"] = idx
        return d
    except BaseException:
        return {"idx": idx, "harness_error": traceback.format_exc(), "spec": spec}


def _child(w, path):
    r = _worker(w)
    tmp = path + ".tmp"
    with open(tmp, "w") as f:
        json.dump(r, f, default=str)
    os.replace(tmp, path)


MAX_ATTEMPTS = 3


def _run_processes(work, jobs, budget, t0):
    """one process per shard (fork), at most `jobs` at a time.  A worker that dies without a result
    (e.g. a native crash inside a solver library) is retried (same seed, so the same cases) up to
    MAX_ATTEMPTS times in all; after that, or when the watchdog fires, the run is inconclusive
    (exit 2), never a violation.  Process death as such is C20's subject (stress and gcthread
    families run halmos in forked children and report a death as a failure)."""
    ctx = mp.get_context("fork")
    outdir = os.path.join(HOME, ".work", "shards", str(os.getpid()))
    os.makedirs(outdir, exist_ok=True)
    pending = list(work)
    running = {}  # idx -> (proc, path, w, attempt)
    results, errs = [], []
    attempts = {}
    while pending or running:
        while pending and len(running) < jobs:
            w = pending.pop(0)
            idx = w[4]
            path = os.path.join(outdir, f"{idx}.json")
            if os.path.exists(path):
                os.remove(path)
            p = ctx.Process(target=_child, args=(w, path), daemon=False)
            p.start()
            attempts[idx] = attempts.get(idx, 0) + 1
            running[idx] = (p, path, w)
        time.sleep(0.05)
        for idx in list(running):
            p, path, w = running[idx]
            if os.path.exists(path):
                p.join(5)
                with open(path) as f:
                    results.append(json.load(f))
                os.remove(path)
                del running[idx]
            elif not p.is_alive():
                del running[idx]
                print(f"NOTE shard {idx} worker died without a result (exit code {p.exitcode}, attempt {attempts[idx]} of {MAX_ATTEMPTS})", file=sys.stderr)
                if attempts[idx] < MAX_ATTEMPTS:
                    pending.append(w)
                else:
                    errs.append(f"shard {idx} worker died {MAX_ATTEMPTS} times without a result (exit code {p.exitcode}): inconclusive")
        if time.time() - t0 > budget:
            for idx, (p, path, w) in running.items():
                errs.append(f"shard {idx} exceeded the watchdog ({budget}s): inconclusive")
                p.terminate()
            for idx, (p, path, w) in running.items():
                p.join(10)
                if p.is_alive():
                    p.kill()
            for w in pending:
                errs.append(f"shard {w[4]} not started before the watchdog: inconclusive")
            break
    try:
        import shutil

        shutil.rmtree(outdir, ignore_errors=True)
    except Exception:
        pass
    return results, errs


def load_known():
    p = os.path.join(HOME, "known_findings.json")
    if not os.path.exists(p):
        return {"findings": [], "fixed": []}
    with open(p) as f:
        return json.load(f)


def bucket_matches(entry_bucket, bucket):
    """entry bucket is a list; '*' matches any element; a trailing '**' matches any suffix;
    otherwise the full length must match"""
    if entry_bucket and entry_bucket[-1] == "**":
        n = len(entry_bucket) - 1
        return len(bucket) >= n and all(e == "*" or str(e) == str(b) for e, b in zip(entry_bucket[:n], bucket[:n]))
    if len(entry_bucket) != len(bucket):
        return False
    return all(e == "*" or str(e) == str(b) for e, b in zip(entry_bucket, bucket))


def find_known(known, prop, bucket):
    for e in known.get("findings", []):
        if e.get("property") == prop and bucket_matches(e.get("bucket", []), bucket):
            return e
    return None


def write_evidence(prop, tier, seed, level, coverage, assumptions, wall, violations):
    ev = {
        "property_id": prop,
        "tier": tier,
        "seed": seed,
        "level": level,
        "coverage": coverage,
        "assumptions": assumptions,
        "wall_s": round(wall, 2),
        "violations": violations,
    }
    os.makedirs(os.path.join(OUT, "evidence"), exist_ok=True)
    p = os.path.join(OUT, "evidence", f"{prop}.json")
    tmp = p + ".tmp"
    with open(tmp, "w") as f:
        json.dump(ev, f, indent=1, default=str)
    os.replace(tmp, p)
    return p


def regress_cases(prop):
    d = os.path.join(HOME, "regress", prop)
    if not os.path.isdir(d):
        return []
    out = []
    for fn in sorted(os.listdir(d)):
        if fn.endswith(".json"):
            with open(os.path.join(d, fn)) as f:
                out.append((fn, json.load(f)))
    return out


def run_check(prop: str, tier: str, seed: int, replay_file: str | None = None, jobs: int | None = None) -> int:
    # halmos creates one temporary directory per test function for its solver queries; killed or
    # crashed workers would leave them behind: keep them under .work and remove them at the end
    import shutil
    import tempfile

    tmp = os.path.join(os.environ.get("VERIF_HOME", "/verif"), ".work", "tmp", f"{prop}-{os.getpid()}")
    os.makedirs(tmp, exist_ok=True)
    os.environ["TMPDIR"] = tmp
    tempfile.tempdir = tmp
    try:
        return _run_check(prop, tier, seed, replay_file, jobs)
    finally:
        shutil.rmtree(tmp, ignore_errors=True)


def _run_check(prop: str, tier: str, seed: int, replay_file: str | None = None, jobs: int | None = None) -> int:
    t0 = time.time()
    modname = MODULES[prop]
    mod = importlib.import_module(modname)
    known = load_known()

    if replay_file:
        with open(replay_file) as f:
            rec = json.load(f)
        case = rec.get("case", rec)
        fails = mod.replay(case)
        if fails:
            for fl in fails:
                print(f"REPLAY-FAIL property={prop} bucket={fl['bucket']} detail={fl['detail'][:1000]}")
            print(f"VIOLATION property={prop} replay={replay_file}")
            return 1
        print(f"REPLAY-OK property={prop} {replay_file}")
        return 0

    merged = Acc()
    walls = []
    harness_errors = []

    # 1. seconds-long regression tier: committed minimal cases (from fixed defects and from
    #    seeded breakages), replayed first, bypassing the generators
    nreg = 0
    for fn, rec in regress_cases(prop):
        nreg += 1
        try:
            fails = mod.replay(rec["case"])
        except Exception:
            harness_errors.append(f"regress/{prop}/{fn}: " + traceback.format_exc())
            continue
        for fl in fails:
            merged.fail(fl["bucket"], rec["case"], "[regress %s] %s" % (fn, fl["detail"]))

    # 2. generated search, sharded
    specs = mod.shards(tier)
    jobs = jobs or int(os.environ.get("VERIF_JOBS", "16"))
    work = [(modname, spec, derive_seed(seed, prop, i), tier, i) for i, spec in enumerate(specs)]
    budget = float(os.environ.get("VERIF_WATCHDOG_S", getattr(mod, "WATCHDOG_S", {}).get(tier, 3600)))
    if tier == "quick" and "VERIF_WATCHDOG_S" not in os.environ:
        budget = min(budget, 2400.0)
    os.environ["VFW_SHARD_BUDGET"] = str(budget)
    results = []
    if jobs <= 1 or len(work) <= 1:
        for w in work:
            results.append(_worker(w))
    else:
        results, errs = _run_processes(work, jobs, budget, t0)
        harness_errors.extend(errs)

    for r in sorted(results, key=lambda r: r["idx"]):
        if "harness_error" in r:
            harness_errors.append(f"shard {r['idx']} spec={r.get('spec')}:\n{r['harness_error']}")
            continue
        merged.evaluations += r["evaluations"]
        merged.nontrivial.update(r["nontrivial"])
        for k, v in r["hist"].items():
            merged.hist[k] = merged.hist.get(k, 0) + v
        for k, v in r["excluded"].items():
            merged.excluded[k] = merged.excluded.get(k, 0) + v
        for s in r["samples"]:
            if len(merged.samples) < 8:
                merged.samples.append(s)
        for key, lst in r["failures"].items():
            cur = merged.failures.setdefault(key, [])
            cur.extend(lst[: max(0, Acc.MAX_FAIL_PER_BUCKET - len(cur))])
        if r["exhaustive"] is not None:
            merged.exhaustive = r["exhaustive"] if merged.exhaustive is None else (merged.exhaustive and r["exhaustive"])
        for k, v in r["extra"].items():
            if isinstance(v, (int, float)) and isinstance(merged.extra.get(k, 0), (int, float)):
                merged.extra[k] = merged.extra.get(k, 0) + v
            else:
                merged.extra[k] = v
        walls.append(r["wall"])

    # 3. classify failures
    violations = 0
    known_hits = 0
    out_lines = []
    for key in sorted(merged.failures):
        lst = merged.failures[key]
        bucket = lst[0]["bucket"]
        if bucket and str(bucket[0]) in ("harness", "harness-stall"):
            # the machinery contradicted itself (e.g. its two ground truths disagree): inconclusive, never a violation
            harness_errors.append(f"self-check {'/'.join(map(str, bucket))}: {lst[0]['detail'][:400]}")
            continue
        entry = find_known(known, prop, bucket)
        if entry is not None:
            known_hits += 1
            out_lines.append(f"KNOWN-FINDING: property={prop} {entry.get('what', '')} [bucket={'/'.join(map(str, bucket))}]")
            continue
        violations += 1
        rec = min(lst, key=lambda r: len(json.dumps(r["case"], default=str)))
        case = rec["case"]
        if hasattr(mod, "shrink") and os.environ.get("VERIF_NO_SHRINK") != "1":
            try:
                def same(c, _b=bucket):
                    try:
                        return any(f["bucket"] == _b for f in mod.replay(c))
                    except Exception:
                        return False
                case = mod.shrink(case, same)
            except Exception:
                out_lines.append("note: shrinking failed: " + traceback.format_exc(limit=2))
        d = os.path.join(OUT, "replays", prop)
        os.makedirs(d, exist_ok=True)
        path = os.path.join(d, f"{jhash(bucket)}.json")
        with open(path, "w") as f:
            json.dump({"property": prop, "bucket": bucket, "detail": rec["detail"], "case": case, "seed": seed, "tier": tier}, f, indent=1, default=str)
        out_lines.append(f"FAILURE property={prop} bucket={'/'.join(map(str, bucket))} detail={rec['detail'][:600]}")
        out_lines.append(f"VIOLATION property={prop} replay={path}")

    wall = time.time() - t0
    coverage = {
        "evaluations": merged.evaluations,
        "distinct_nontrivial": len(merged.nontrivial),
        "rule": mod.RULE,
        "samples": merged.samples[:6],
        "classes": dict(sorted(merged.hist.items())),
        "excluded": merged.excluded,
        "regression_cases_replayed": nreg,
        "known_findings_hit": known_hits,
        "shards": len(specs),
    }
    if merged.exhaustive is not None:
        coverage["exhaustive"] = bool(merged.exhaustive)
    coverage.update(merged.extra)
    if getattr(mod, "LEVEL", "exploration") == "other":
        coverage["explanation"] = getattr(mod, "EXPLANATION", mod.RULE)
    ok_evidence = not harness_errors
    if ok_evidence:
        write_evidence(prop, tier, seed, getattr(mod, "LEVEL", "exploration"), coverage, getattr(mod, "ASSUMPTIONS", []), wall, violations)

    for ln in out_lines:
        print(ln)
    print(f"SUMMARY property={prop} tier={tier} seed={seed} evaluations={merged.evaluations} "
          f"distinct_nontrivial={len(merged.nontrivial)} violations={violations} known={known_hits} wall={wall:.1f}s")
    if harness_errors:
        try:
            with open(os.path.join(os.environ.get("VERIF_HOME", "/verif"), ".work", f"harness_errors_{prop}.log"), "a") as f:
                f.write(f"--- {time.ctime()} tier={tier} seed={seed}\n" + "\n".join(harness_errors) + "\n")
        except OSError:
            pass
        for h in harness_errors:
            print("HARNESS-ERROR", h, file=sys.stderr)
        print(f"HARNESS-ERROR property={prop}: {len(harness_errors)} shard(s) failed; result inconclusive")
        return 1 if violations else 2
    if violations:
        return 1
    if merged.evaluations == 0 or len(merged.nontrivial) < 2:
        print(f"HARNESS-ERROR property={prop}: vacuous run (no non-trivial cases)")
        return 2
    return 0
