"""validate MANIFEST.json and evidence files against the given schemas (uses python3-vt's jsonschema)"""
import json, sys, glob
import jsonschema
m = json.load(open('MANIFEST.json'))
jsonschema.validate(m, json.load(open('/root/.vp/MANIFEST.schema.json')))
es = json.load(open('/root/.vp/EVIDENCE.schema.json'))
bad = 0
for c in m['checks']:
    try:
        jsonschema.validate(json.load(open(c['evidence_file'])), es)
    except Exception as e:
        bad += 1
        print('BAD', c['evidence_file'], str(e)[:300])
props = [json.loads(l)['id'] for l in open('properties.jsonl')]
claimed = {c['property_id'] for c in m['checks']}
na = {x['property_id'] for x in m.get('not_applicable', [])}
print('claimed', sorted(claimed)); print('not_applicable', sorted(na)); print('unlisted', sorted(set(props) - claimed - na))
print('ok' if not bad else 'FAILED')
