"""E3' — build halmos Exec objects with symbolic inputs from a JSON-able world description,
run them through SEVM.run, and expose what the oracles need.

world = {
  "accounts": [ {"addr": int, "code": hex, "balance": int | "sym"}, ... ],
  "target": int,                 account whose code runs
  "cdlen": int,                  calldata length in bytes (content symbolic, symbol "cd")
  "caller": int | "sym", "origin": int | "sym", "value": int | "sym",
  "static": bool (optional)
}
Symbols: cd (8*cdlen bits), caller, origin (160), value (256), bal_<hexaddr> (256).
"""

from __future__ import annotations

import logging

import z3
from z3 import BitVec, BitVecVal

from halmos.__main__ import mk_block, mk_solver
from halmos.bytevec import ByteVec
from halmos.calldata import FunctionInfo
from halmos.config import default_config, ConfigSource
from halmos.sevm import (
    EMPTY_BALANCE,
    SEVM,
    CallContext,
    Contract,
    Message,
    Path,
    con_addr,
)
from halmos.utils import EVM

from vfw import symeval

_DEF = None


def base_config(**over):
    global _DEF
    if _DEF is None:
        _DEF = default_config()
    cfg = _DEF
    over.setdefault("no_status", True)
    return cfg.with_overrides(ConfigSource.command_line, **over)


class LogCapture(logging.Handler):
    def __init__(self):
        super().__init__(level=logging.DEBUG)
        self.records = []

    def emit(self, record):
        try:
            self.records.append((record.levelname, record.getMessage()))
        except Exception:
            self.records.append((record.levelname, str(record.msg)))

    def __enter__(self):
        self._lg = [logging.getLogger("halmos"), logging.getLogger("halmos.unique")]
        for lg in self._lg[:1]:
            lg.addHandler(self)
        return self

    def __exit__(self, *a):
        for lg in self._lg[:1]:
            lg.removeHandler(self)

    def warnings(self):
        return [m for (l, m) in self.records if l in ("WARNING", "ERROR")]


def addr_sym(a: int) -> str:
    return f"bal_{a:040x}"


def mk_world(world: dict, args=None, fun_name="t"):
    args = args or base_config()
    from halmos.mapper import BuildOut

    if BuildOut()._build_out_map is None:
        BuildOut().set_build_out({})  # no artifacts: created contracts are simply "unknown bytecode"
    sevm = SEVM(args, FunctionInfo("T", fun_name, fun_name + "()", "f8a8fd6d"))
    code, storage, tstorage = {}, {}, {}
    for acc in world["accounts"]:
        a = con_addr(acc["addr"])
        c = acc["code"]
        code[a] = Contract(bytes.fromhex(c) if isinstance(c, str) else c)
        storage[a] = sevm.mk_storagedata()
        tstorage[a] = sevm.mk_storagedata()
    target = con_addr(world["target"])
    n = world.get("cdlen", 0)
    cd = ByteVec(BitVec("cd", 8 * n)) if n else ByteVec()
    if n and world.get("cdwords"):
        # one symbol per 32-byte word (as halmos' own calldata builder does for static arguments):
        # aligned CALLDATALOADs then return plain variables, which is what the path
        # concretization logic keys on
        cd = ByteVec()
        for i in range(n // 32):
            cd.append(BitVec(f"cdw{i}", 256))
        if n % 32:
            cd.append(BitVec("cdtail", 8 * (n % 32)))
    if world.get("cd_concrete") is not None:
        cd = ByteVec(bytes.fromhex(world["cd_concrete"]))

    def sv(key, width):
        v = world.get(key, "sym")
        return BitVec(key, width) if v == "sym" else BitVecVal(v, width)

    caller = sv("caller", 160)
    origin = sv("origin", 160)
    value = sv("value", 256)
    msg = Message(
        target=target,
        caller=caller,
        origin=origin,
        value=value,
        data=cd,
        call_scheme=EVM.CALL,
        is_static=bool(world.get("static", False)),
    )
    ex = sevm.mk_exec(
        code=code,
        storage=storage,
        transient_storage=tstorage,
        balance=EMPTY_BALANCE,
        block=mk_block(),
        context=CallContext(message=msg),
        pgm=code[target],
        path=Path(mk_solver(args)),
    )
    for acc in world["accounts"]:
        b = acc.get("balance", 0)
        if b == "sym":
            ex.balance_update(con_addr(acc["addr"]), BitVec(addr_sym(acc["addr"]), 256))
        elif b:
            ex.balance_update(con_addr(acc["addr"]), BitVecVal(b, 256))
    return sevm, ex


def run_world(world: dict, args=None):
    sevm, ex0 = mk_world(world, args)
    exs = list(sevm.run(ex0))
    return sevm, exs


def outcome(ex) -> str:
    """classify the end state of a yielded top-level Exec"""
    out = ex.context.output
    err = out.error
    if err is None:
        return "stuck:nodata" if out.data is None else "success"
    name = type(err).__name__
    from halmos.exceptions import EvmException, FailCheatcode, HalmosException, Revert

    if isinstance(err, Revert):
        return "revert"
    if isinstance(err, FailCheatcode):
        return "failcheat"
    if isinstance(err, EvmException):
        return "halt:" + name
    if isinstance(err, HalmosException):
        return "stuck:" + name
    return "other:" + name


def bytevec_value(bv, env: symeval.Env, memo=None) -> bytes:
    """concrete bytes of a ByteVec (or None) under env"""
    if bv is None:
        return None
    n = len(bv)
    if n == 0:
        return b""
    u = bv.unwrap()
    if isinstance(u, bytes):
        return u
    if isinstance(u, int):
        return u.to_bytes(n, "big")
    if hasattr(u, "as_z3"):
        u = u.as_z3()
    v = symeval.evaluate(u, env, memo)
    return int(v).to_bytes(n, "big")


def word_value(w, env: symeval.Env, memo=None) -> int:
    """concrete value of a Word (int / BV / Bool / z3) under env"""
    if isinstance(w, bool):
        return int(w)
    if isinstance(w, int):
        return w
    if hasattr(w, "as_z3"):
        if getattr(w, "is_concrete", False):
            v = w.value
            return int(v)
        w = w.as_z3()
    v = symeval.evaluate(w, env, memo)
    if isinstance(v, bool):
        return int(v)
    return v


def env_for_inputs(world: dict, inp: dict, extra_funcs=None) -> symeval.Env:
    """Env binding the input symbols of a world to the concrete input `inp`
    inp = {"cd": hex, "caller": int, "origin": int, "value": int, "bal": {addr: int}}"""
    consts = {}
    n = world.get("cdlen", 0)
    if n and world.get("cd_concrete") is None:
        raw = bytes.fromhex(inp["cd"])
        consts["cd"] = int.from_bytes(raw, "big")
        if world.get("cdwords"):
            for i in range(n // 32):
                consts[f"cdw{i}"] = int.from_bytes(raw[32 * i : 32 * i + 32], "big")
            if n % 32:
                consts["cdtail"] = int.from_bytes(raw[32 * (n // 32) :], "big")
    for k in ("caller", "origin", "value"):
        if world.get(k, "sym") == "sym":
            consts[k] = inp[k]
    for acc in world["accounts"]:
        if acc.get("balance", 0) == "sym":
            consts[addr_sym(acc["addr"])] = inp["bal"][str(acc["addr"])]
    consts["balance_00"] = symeval.ArrVal({}, 0)

    def default_array(name):
        # empty base arrays (non-symbolic storage): storage_<addr>_..._00
        if name.startswith("storage_") and name.endswith("_00"):
            return symeval.ArrVal({}, 0)
        return None

    funcs = dict(extra_funcs or {})
    return symeval.Env(consts, funcs, default_array=default_array)
