"""Differential engine shared by C01/C02/C08/C09/C20: run a world (vfw.sym) through SEVM.run,
run the same world concretely on the reference EVM for given inputs, and compare every reported
path whose constraints the input satisfies with the reference outcome.

inputs: {"cd": hex, "caller": int, "origin": int, "value": int, "bal": {str(addr): int}}
"""

from __future__ import annotations

import z3

from vfw import refevm, sym, symeval
from vfw.evmref import BOUNDARY, M256

GASVALS = lambda k: (0x5A17 * 1000003 * (k + 1)) & M256  # noqa: E731  deterministic gas oracle
GASPRICE = 0x1234567


def ref_world(world, inp):
    w = refevm.World()
    for acc in world["accounts"]:
        b = acc.get("balance", 0)
        if b == "sym":
            b = inp["bal"][str(acc["addr"])]
        c = acc["code"]
        w.accounts[acc["addr"]] = refevm.Account(code=bytes.fromhex(c) if isinstance(c, str) else c, storage={}, balance=b)
    return w


def created_addresses(ctx):
    """targets of all creation contexts in chronological (pre-order) order"""
    out = []

    def walk(c):
        for t in c.trace:
            if hasattr(t, "message") and hasattr(t, "trace"):
                if t.message.is_create():
                    tgt = t.message.target
                    out.append(tgt.as_long() if hasattr(tgt, "as_long") else int(tgt))
                walk(t)

    walk(ctx)
    return out


def collect_logs(ctx):
    """event logs of successful frames, chronological"""
    from halmos.sevm import CallContext, EventLog

    out = []

    def walk(c):
        for t in c.trace:
            if isinstance(t, EventLog):
                out.append(t)
            elif isinstance(t, CallContext):
                if t.output.error is None and t.output.data is not None:
                    walk(t)

    walk(ctx)
    return out


def run_ref(world, inp, new_addresses=None, cheats=None, static=False):
    w = ref_world(world, inp)
    evm = refevm.EVM(w, new_addresses=new_addresses, gas_values=GASVALS, gasprice=GASPRICE, cheats=cheats)
    n = world.get("cdlen", 0)
    if world.get("cd_concrete") is not None:
        cd = bytes.fromhex(world["cd_concrete"])
    else:
        cd = bytes.fromhex(inp["cd"]) if n else b""

    def g(k):
        v = world.get(k, "sym")
        return inp[k] if v == "sym" else v

    msg = refevm.Msg(caller=g("caller"), target=world["target"], code_addr=world["target"], value=g("value"), data=cd, origin=g("origin"), static=bool(world.get("static", False)))
    res = evm.run_tx(msg, transfer_value=False)
    return res, evm


def mk_env(world, inp):
    return sym.env_for_inputs(world, inp, extra_funcs={"f_gas": lambda k: GASVALS(k), "f_gasprice": lambda: GASPRICE})


def path_covers(ex, env):
    """(True/False/None=unevaluable, detail)"""
    try:
        ok, idx, _ = symeval.eval_conditions(list(ex.path.conditions), env)
        return ok, idx
    except symeval.Unbound as e:
        return None, f"unbound {e}"


def category(status):
    if status == "success":
        return "success"
    if status == "revert":
        return "revert"
    if status.startswith("halt:"):
        return "halt"
    return status


def storage_value(sd, slot, env, memo=None):
    """value of a concrete (non-hash) slot in a halmos StorageData, solidity or generic layout"""
    m = sd._mapping
    if not m:
        return 0
    if any(isinstance(k, int) for k in m):  # generic layout: {key-width: array}
        arr = m.get(256)
        if arr is None:
            return 0
        v = symeval.evaluate(z3.Select(arr, z3.BitVecVal(slot, 256)), env, memo)
    else:
        t = m.get((slot, 0, 0))
        if t is None:
            return 0
        v = symeval.evaluate(t, env, memo)
    return int(v) if not isinstance(v, bool) else int(v)


def compare_path(sevm, ex, env, res, evm, world, opts=None):
    """compare one covering path with the reference result. returns list of (bucket, detail)"""
    opts = opts or {}
    fails = []
    out = sym.outcome(ex)
    got_cat = "halt" if out.startswith("halt:") else out
    exp_cat = category(res.status)
    tag = []
    if "msize-read-expansion" in evm.flags:
        tag = ["msize-read-expansion"]
    elif "returndatacopy-size0-oob" in evm.flags:
        tag = ["returndatacopy-size0-oob"]
    elif "static-call-with-value" in evm.flags:
        tag = ["static-call-with-value", opts.get("value_kind", "unknown-value")]
    elif "stack>1024" in evm.flags:
        tag = ["stack>1024"]
    if got_cat.startswith("stuck") or got_cat.startswith("other"):
        # halmos flagged the path as unsupported/internal error: not a reported behaviour (C10 owns it)
        return [("__stuck__", out)]
    if got_cat != exp_cat:
        return [(tag + ["outcome", f"{exp_cat}->{got_cat}"], f"halmos {out} ({ex.context.output.error!r}) vs reference {res.status}")]
    memo = {}
    # return / revert data
    try:
        data = sym.bytevec_value(ex.context.output.data, env, memo)
    except symeval.Unbound as e:
        return [("__uneval__", str(e))]
    if got_cat in ("success", "revert") and data != res.data:
        fails.append((tag + ["data", got_cat], f"got {data.hex()[:400]} expected {res.data.hex()[:400]}"))
    if got_cat != "success":
        return fails
    # balances
    addrs = [a["addr"] for a in world["accounts"]] + list(res.created)
    extra = opts.get("probe_addrs", [])
    for a in addrs + list(extra):
        try:
            # the balance array is defined by the path's own Store-chain equalities (bound in env
            # by eval_conditions); read it directly instead of through Exec.select, whose solver
            # belongs to whichever path was explored last
            b = symeval.evaluate(z3.Select(ex.balance, z3.BitVecVal(a, 160)), env, memo)
        except symeval.Unbound as e:
            return fails + [("__uneval__", str(e))]
        acc = res.world.acct(a)
        eb = acc.balance if acc else 0
        if b != eb:
            fails.append((tag + ["balance"], f"addr {a:#x}: got {b} expected {eb}"))
            break
    # code
    for a in addrs:
        acc = res.world.acct(a)
        ecode = acc.code if acc else b""
        c = ex.code.get(sym.con_addr(a))
        try:
            gcode = sym.bytevec_value(c._code, env, memo) if c is not None else b""
        except symeval.Unbound as e:
            return fails + [("__uneval__", str(e))]
        if gcode != ecode:
            fails.append((tag + ["code"], f"addr {a:#x}: got {gcode.hex()[:200]} expected {ecode.hex()[:200]}"))
            break
    # storage: concrete small slots read from the yielded Exec's storage terms
    if opts.get("probe_storage", True):
        for a in addrs:
            acc = res.world.acct(a)
            sd = ex.storage.get(sym.con_addr(a))
            if acc is None or sd is None:
                continue
            slots = [k for k in acc.storage if k < (1 << 64)][:6] + [0, 1, 7]
            # plus every scalar slot halmos holds (a leaked write shows up as a non-zero extra slot)
            if not any(isinstance(k, int) for k in sd._mapping):
                slots += [key[0] for key in list(sd._mapping)[:8] if key[1] == 0 and key[0] < (1 << 64)]
            for k in slots:
                try:
                    gv = storage_value(sd, k, env, memo)
                except symeval.Unbound as e:
                    return fails + [("__uneval__", str(e))]
                ev = acc.storage.get(k, 0)
                if gv != ev:
                    fails.append((tag + ["storage"], f"addr {a:#x} slot {k}: got {gv:#x} expected {ev:#x}"))
                    break
    # transient storage (same transaction): slots the reference holds
    if opts.get("probe_transient", True):
        for (a, k), ev in sorted(res.world.transient.items()):
            if k >= (1 << 64):
                continue
            sd = ex.transient_storage.get(sym.con_addr(a))
            try:
                gv = storage_value(sd, k, env, memo) if sd is not None else 0
            except symeval.Unbound as e:
                return fails + [("__uneval__", str(e))]
            if gv != ev:
                fails.append((tag + ["transient"], f"addr {a:#x} slot {k}: got {gv:#x} expected {ev:#x}"))
                break
        # and slots halmos holds that the reference does not (must read as zero)
        for a in addrs:
            sd = ex.transient_storage.get(sym.con_addr(a))
            if sd is None or any(isinstance(k, int) for k in sd._mapping):
                continue
            for key in list(sd._mapping)[:6]:
                if key[1] == 0 and (a, key[0]) not in res.world.transient:
                    try:
                        gv = storage_value(sd, key[0], env, memo)
                    except symeval.Unbound as e:
                        return fails + [("__uneval__", str(e))]
                    if gv != 0:
                        fails.append((tag + ["transient"], f"addr {a:#x} slot {key[0]}: got {gv:#x} expected 0 (not set in the reference)"))
                        break
    # logs of successful frames
    if opts.get("check_logs", True):
        try:
            glogs = []
            for lg in collect_logs(ex.context):
                adr = lg.address
                adr = adr.as_long() if hasattr(adr, "as_long") else sym.word_value(adr, env, memo)
                glogs.append((adr, [sym.word_value(t, env, memo) for t in lg.topics], sym.bytevec_value(lg.data, env, memo) if lg.data is not None else b""))
            elogs = [(a, list(t), bytes(d)) for (a, t, d) in res.logs]
            if glogs != elogs:
                fails.append((tag + ["logs"], f"got {glogs!r:.300} expected {elogs!r:.300}"))
        except symeval.Unbound as e:
            return fails + [("__uneval__", str(e))]
    return fails


def boundary_inputs(world, rng, n):
    """n random/boundary concrete inputs for a world"""
    out = []
    cdlen = world.get("cdlen", 0)
    known = [a["addr"] for a in world["accounts"]]
    for k in range(n):
        words = []
        for _w in range((cdlen + 31) // 32):
            r = rng.random()
            if k == 0 and r < 0.5 and world.get("target") is not None:
                # one input in which calldata-derived addresses hit the running contract itself
                words.append(world["target"] if r < 0.35 else rng.choice(known))
            elif r < 0.35:
                words.append(rng.choice(BOUNDARY))
            elif r < 0.7:
                words.append(rng.randrange(0, 8))
            elif r < 0.8:
                words.append(rng.choice(known))
            else:
                words.append(rng.getrandbits(256))
        cd = b"".join(w.to_bytes(32, "big") for w in words)[:cdlen]
        inp = {
            "cd": cd.hex(),
            "caller": rng.choice(known + [0, 1, 0xCAFE, rng.getrandbits(160)]),
            "origin": rng.choice(known + [0, 0xCAFE, rng.getrandbits(160)]),
            "value": rng.choice([0, 0, 1, 2, 1000, 1 << 64, rng.getrandbits(100)]),
            "bal": {str(a["addr"]): rng.choice([0, 1, 2, 5, 1000, 1 << 64, (1 << 128), rng.getrandbits(90)]) for a in world["accounts"] if a.get("balance") == "sym"},
        }
        out.append(inp)
    return out


def _exact_def(app):
    name = app.decl().name()
    if not name.startswith("f_evm_") or app.num_args() != 2:
        return None
    x, y = app.arg(0), app.arg(1)
    n = x.size()
    zero = z3.BitVecVal(0, n)
    if "bvudiv" in name:
        return z3.If(y == zero, zero, z3.UDiv(x, y))
    if "bvurem" in name:
        return z3.If(y == zero, zero, z3.URem(x, y))
    if "bvsdiv" in name:
        return z3.If(y == zero, zero, x / y)
    if "bvsrem" in name:
        return z3.If(y == zero, zero, z3.SRem(x, y))
    if "bvmul" in name:
        return x * y
    return None


def model_inputs(world, conds, timeout_ms=800, extra=None, nmodels=1):
    """ask z3 (input generator only) for concrete inputs satisfying `conds`; returns list of inputs.
    Arithmetic abstractions are pinned to their exact definitions; hashes stay uninterpreted in
    the first round and are pinned to real keccak for the preimages of the found model in a
    second round."""
    from eth_hash.auto import keccak

    outs = []
    s = z3.SolverFor("QF_AUFBV")
    # resource limit rather than wall-clock: which inputs get proposed must not depend on load
    s.set("rlimit", 4000 * timeout_ms)
    s.set("timeout", 20 * timeout_ms)
    seen = set()
    sha_apps = []
    for c in list(conds) + list(extra or []):
        s.add(c)
        stack = [c]
        while stack:
            u = stack.pop()
            if u.get_id() in seen:
                continue
            seen.add(u.get_id())
            if u.decl().kind() == z3.Z3_OP_UNINTERPRETED and u.num_args() > 0:
                d = _exact_def(u)
                if d is not None:
                    s.add(u == d)
                elif u.decl().name().startswith("f_sha3_") and u.num_args() == 1:
                    sha_apps.append(u)
            stack.extend(u.children())
    # empty-array axioms: the base arrays are empty
    for rounds in range(2):
        if s.check() != z3.sat:
            return outs
        m = s.model()
        inp = extract_input(world, m)
        outs.append(inp)
        if not sha_apps or rounds == 1:
            break
        # pin hashes to real keccak for the current preimages
        pinned = False
        for app in sha_apps:
            arg = m.eval(app.arg(0), model_completion=True)
            if z3.is_bv_value(arg):
                nb = app.arg(0).size() // 8
                h = int.from_bytes(keccak(arg.as_long().to_bytes(nb, "big")), "big")
                s.add(z3.Implies(app.arg(0) == arg, app == z3.BitVecVal(h, 256)))
                s.add(app.arg(0) == arg)
                pinned = True
        if not pinned:
            break
    return outs[-nmodels:]


def extract_input(world, m):
    cdlen = world.get("cdlen", 0)

    def val(name, bits):
        v = m.eval(z3.BitVec(name, bits), model_completion=True)
        return v.as_long()

    if cdlen and world.get("cdwords"):
        raw = b"".join(val(f"cdw{i}", 256).to_bytes(32, "big") for i in range(cdlen // 32))
        if cdlen % 32:
            raw += val("cdtail", 8 * (cdlen % 32)).to_bytes(cdlen % 32, "big")
        cdhex = raw.hex()
    else:
        cdhex = val("cd", 8 * cdlen).to_bytes(cdlen, "big").hex() if cdlen else ""
    inp = {"cd": cdhex, "caller": val("caller", 160), "origin": val("origin", 160), "value": val("value", 256), "bal": {}}
    for a in world["accounts"]:
        if a.get("balance") == "sym":
            inp["bal"][str(a["addr"])] = val(sym.addr_sym(a["addr"]), 256)
    return inp


def admissible(world, inp):
    """documented modelling assumption: every balance stays <= 2^128 (MAX_ETH) - also after transfers,
    which halmos expresses as a path condition on the updated balance; inputs whose total supply
    exceeds 2^128 can violate it in the middle of a run and are outside the modelled domain"""
    return sum(inp.get("bal", {}).values()) <= (1 << 128)


def check_world(world, inputs, args=None, opts=None, rng=None, guided=True):
    """run halmos once, then compare for each input.  returns dict with fails, stats"""
    opts = opts or {}
    stats = {"paths": 0, "inputs": 0, "covered": 0, "uncovered": 0, "uneval": 0, "stuck_paths": 0, "guided": 0, "ref_unsupported": 0, "multi_cover": 0}
    fails = []
    with sym.LogCapture() as logs:
        try:
            sevm, exs = sym.run_world(world, args)
        except Exception as e:
            import traceback

            tb = traceback.extract_tb(e.__traceback__)
            where = next((fr.name for fr in reversed(tb) if "halmos" in fr.filename), "harness")
            # an exception escaping SEVM.run reports no path at all (the test ends in ERROR): it is
            # not a reported behaviour, so C01/C02 do not judge it; it is counted per kind
            stats["crash"] = f"{type(e).__name__}@{where}"
            if where == "harness":
                raise
            return {"fails": [], "stats": stats, "exs": [], "sevm": None, "uncovered_inputs": [], "logs": logs, "crash": stats["crash"]}
    stats["paths"] = len(exs)
    inputs = list(inputs)
    if guided:
        cand = [ex for ex in exs if not sym.outcome(ex).startswith("stuck")]
        if len(cand) > 6:
            # bound solver time: the first, the last and a stride of the paths in between
            step = max(1, len(cand) // 5)
            cand = cand[::step][:5] + [cand[-1]]
        for ex in cand:
            try:
                for gi in model_inputs(world, list(ex.path.conditions), timeout_ms=300):
                    gi["_guided"] = True
                    inputs.append(gi)
            except z3.Z3Exception:
                pass
    uncovered = []
    for inp in inputs:
        if not admissible(world, inp):
            continue
        stats["inputs"] += 1
        if inp.get("_guided"):
            stats["guided"] += 1
        cover = []
        uneval = False
        env0 = mk_env(world, inp)
        for ex in exs:
            env = env0.copy()
            ok, _ = path_covers(ex, env)
            if ok is None:
                uneval = True
            elif ok:
                cover.append((ex, env))
        if not cover:
            if uneval:
                stats["uneval"] += 1
            else:
                stats["uncovered"] += 1
                uncovered.append(inp)
            continue
        stats["covered"] += 1
        if len(cover) > 1:
            stats["multi_cover"] += 1
        for ex, env in cover:
            try:
                res, evm = run_ref(world, inp, new_addresses=created_addresses(ex.context), cheats=opts.get("cheats_factory", lambda: None)(), static=world.get("static", False))
            except refevm.Unsupported as e:
                stats["ref_unsupported"] += 1
                continue
            fl = compare_path(sevm, ex, env, res, evm, world, opts)
            for b, d in fl:
                if b == "__stuck__":
                    stats["stuck_paths"] += 1
                elif b == "__uneval__":
                    stats["uneval"] += 1
                else:
                    fails.append((b, d + f" | input={ {k: v for k, v in inp.items() if k != '_guided'} }"))
    return {"fails": fails, "stats": stats, "exs": exs, "sevm": sevm, "uncovered_inputs": uncovered, "logs": logs}
