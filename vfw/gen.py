"""E3 — program DSL -> bytecode, and Hypothesis strategies for structured EVM programs.

Expressions (JSON lists):
  ["c", v] | ["cd", i] | ["cdo", off] | ["env", NAME] | ["op1", OP, e] | ["op2", OP, a, b] (a = top)
  | ["op3", OP, a, b, c] | ["bal", e] | ["sload", e] | ["tload", e] | ["mload", off]
  | ["sha", off, size] | ["mapkey", e, slot] | ["extsize", e] | ["exthash", e]
Statements:
  ["mstore", off, e] ["mstore8", off, e] ["sstore", k, v] ["tstore", k, v] ["pop", e]
  ["cdcopy", dst, off, size] ["codecopy", dst, off, size] ["rdcopy", dst, off, size]
  ["mcopy", dst, src, size] ["extcopy", e, dst, off, size] ["log", off, size, [topics]]
  ["if", cond, [then], [else]] ["loop", count_expr, maxc, [body]]
  ["call", KIND, target_e, value_e, aoff, asize, roff, rsize, flagoff]
  ["create", KIND, value_e, inithex, salt_e, flagoff]
  ["return", off, size] ["revert", off, size] ["stop"] ["invalid"] ["underflow"] ["badjump"]
  ["raw", hex]
  ["mstorex", off_e, val_e] ["returnx", off_e, size] ["cdcopyx", dst_e, src, size]   (computed offsets; expr ["mloadx", e])
"""

from __future__ import annotations

from vfw import asm
from vfw.evmref import BOUNDARY, M256
from vfw.hyp import st

CTR = 0x7E0  # memory cell used as loop counter (per nesting level + 32*k)


class Compiler:
    def __init__(self):
        self.n = 0

    def label(self):
        self.n += 1
        return f"L{self.n}"

    def expr(self, e):
        k = e[0]
        if k == "c":
            return [("PUSH", e[1] & M256)]
        if k == "cd":
            return [("PUSH", 32 * e[1]), "CALLDATALOAD"]
        if k == "cdo":
            return [("PUSH", e[1]), "CALLDATALOAD"]
        if k == "cdx":  # CALLDATALOAD at a computed offset
            return self.expr(e[1]) + ["CALLDATALOAD"]
        if k == "env":
            return [e[1]]
        if k == "op1":
            return self.expr(e[2]) + [e[1]]
        if k == "op2":
            return self.expr(e[3]) + self.expr(e[2]) + [e[1]]
        if k == "op3":
            return self.expr(e[4]) + self.expr(e[3]) + self.expr(e[2]) + [e[1]]
        if k == "bal":
            return self.expr(e[1]) + ["BALANCE"]
        if k == "sload":
            return self.expr(e[1]) + ["SLOAD"]
        if k == "tload":
            return self.expr(e[1]) + ["TLOAD"]
        if k == "mload":
            return [("PUSH", e[1]), "MLOAD"]
        if k == "mloadx":  # MLOAD at a computed offset
            return self.expr(e[1]) + ["MLOAD"]
        if k == "sha":
            return [("PUSH", e[2]), ("PUSH", e[1]), "SHA3"]
        if k == "mapkey":
            return self.expr(e[1]) + [("PUSH", 0), "MSTORE", ("PUSH", e[2]), ("PUSH", 32), "MSTORE", ("PUSH", 64), ("PUSH", 0), "SHA3"]
        if k == "arrkey":  # keccak(slot) + index
            return self.expr(e[1]) + [("PUSH", e[2]), ("PUSH", 0), "MSTORE", ("PUSH", 32), ("PUSH", 0), "SHA3", "ADD"]
        if k == "mapkeyx":  # keccak(key . base) with an arbitrary base expression (nested mappings)
            return self.expr(e[2]) + self.expr(e[1]) + [("PUSH", 0), "MSTORE", ("PUSH", 32), "MSTORE", ("PUSH", 64), ("PUSH", 0), "SHA3"]
        if k == "mapkeyw":  # keccak(key[w bytes] . base): abi.encodePacked-style odd-width key
            w = e[3]
            return self.expr(e[2]) + self.expr(e[1]) + [("PUSH", 8 * (32 - w)), "SHL", ("PUSH", 0), "MSTORE", ("PUSH", w), "MSTORE", ("PUSH", w + 32), ("PUSH", 0), "SHA3"]
        if k == "arrx":  # keccak(base) (dynamic array data start) with an arbitrary base expression
            return self.expr(e[1]) + [("PUSH", 0), "MSTORE", ("PUSH", 32), ("PUSH", 0), "SHA3"]
        if k == "extsize":
            return self.expr(e[1]) + ["EXTCODESIZE"]
        if k == "exthash":
            return self.expr(e[1]) + ["EXTCODEHASH"]
        raise ValueError(e)

    def stmts(self, ss, depth=0):
        out = []
        for s in ss:
            out += self.stmt(s, depth)
        return out

    def stmt(self, s, depth=0):
        k = s[0]
        if k == "mstore":
            return self.expr(s[2]) + [("PUSH", s[1]), "MSTORE"]
        if k == "mstorex":  # MSTORE at a computed offset: ["mstorex", off_e, val_e]
            return self.expr(s[2]) + self.expr(s[1]) + ["MSTORE"]
        if k == "returnx":  # RETURN with a computed offset: ["returnx", off_e, size]
            return [("PUSH", s[2])] + self.expr(s[1]) + ["RETURN"]
        if k == "cdcopyx":  # CALLDATACOPY to a computed destination: ["cdcopyx", dst_e, src, size]
            return [("PUSH", s[3]), ("PUSH", s[2])] + self.expr(s[1]) + ["CALLDATACOPY"]
        if k == "mstore8":
            return self.expr(s[2]) + [("PUSH", s[1]), "MSTORE8"]
        if k == "sstore":
            return self.expr(s[2]) + self.expr(s[1]) + ["SSTORE"]
        if k == "tstore":
            return self.expr(s[2]) + self.expr(s[1]) + ["TSTORE"]
        if k == "pop":
            return self.expr(s[1]) + ["POP"]
        if k == "cdcopy":
            return [("PUSH", s[3]), ("PUSH", s[2]), ("PUSH", s[1]), "CALLDATACOPY"]
        if k == "codecopy":
            return [("PUSH", s[3]), ("PUSH", s[2]), ("PUSH", s[1]), "CODECOPY"]
        if k == "rdcopy":
            return [("PUSH", s[3]), ("PUSH", s[2]), ("PUSH", s[1]), "RETURNDATACOPY"]
        if k == "mcopy":
            return [("PUSH", s[3]), ("PUSH", s[2]), ("PUSH", s[1]), "MCOPY"]
        if k == "extcopy":
            return [("PUSH", s[4]), ("PUSH", s[3]), ("PUSH", s[2])] + self.expr(s[1]) + ["EXTCODECOPY"]
        if k == "log":
            out = []
            for t in reversed(s[3]):
                out += self.expr(t)
            return out + [("PUSH", s[2]), ("PUSH", s[1]), f"LOG{len(s[3])}"]
        if k == "if":
            le, lend = self.label(), self.label()
            return self.expr(s[1]) + ["ISZERO", ("PUSHL", le), "JUMPI"] + self.stmts(s[2], depth) + [("PUSHL", lend), "JUMP", ("LABEL", le)] + self.stmts(s[3], depth) + [("LABEL", lend)]
        if k == "loop":
            # counter = min(count_expr, maxc) kept in memory; do { body } while (--ctr != 0) guarded by ctr != 0
            ctr = CTR + 32 * depth
            top, end = self.label(), self.label()
            maxc = s[2]
            init = self.expr(s[1]) + [("PUSH", maxc), "DUP2", "GT", ("PUSHL", "x" + top), "JUMPI", ("PUSHL", "y" + top), "JUMP", ("LABEL", "x" + top), "POP", ("PUSH", maxc), ("LABEL", "y" + top)]
            return (
                init
                + [("PUSH", ctr), "MSTORE", ("LABEL", top), ("PUSH", ctr), "MLOAD", "ISZERO", ("PUSHL", end), "JUMPI"]
                + self.stmts(s[3], depth + 1)
                + [("PUSH", 1), ("PUSH", ctr), "MLOAD", "SUB", ("PUSH", ctr), "MSTORE", ("PUSHL", top), "JUMP", ("LABEL", end)]
            )
        if k == "call":
            _, kind, tgt, val, aoff, asize, roff, rsize, flagoff = s
            out = [("PUSH", rsize), ("PUSH", roff), ("PUSH", asize), ("PUSH", aoff)]
            if kind in ("CALL", "CALLCODE"):
                out += self.expr(val)
            out += self.expr(tgt) + ["GAS", kind]
            return out + [("PUSH", flagoff), "MSTORE"]
        if k == "create":
            _, kind, val, inithex, salt, flagoff = s
            init = bytes.fromhex(inithex)
            out = []
            base = 0x400
            for i in range(0, len(init), 32):
                chunk = init[i : i + 32]
                out += [("PUSHN", 32, int.from_bytes(chunk + b"\0" * (32 - len(chunk)), "big")), ("PUSH", base + i), "MSTORE"]
            if kind == "CREATE2":
                out += self.expr(salt)
            out += [("PUSH", len(init)), ("PUSH", base)] + self.expr(val) + [kind]
            return out + [("PUSH", flagoff), "MSTORE"]
        if k == "return":
            return [("PUSH", s[2]), ("PUSH", s[1]), "RETURN"]
        if k == "revert":
            return [("PUSH", s[2]), ("PUSH", s[1]), "REVERT"]
        if k == "stop":
            return ["STOP"]
        if k == "invalid":
            return ["INVALID"]
        if k == "underflow":
            return ["POP"]
        if k == "badjump":
            return [("PUSH", 1), "JUMP"]
        if k == "raw":
            return [("RAW", s[1])]
        if k == "memw":  # write constant bytes to memory
            data = bytes.fromhex(s[2])
            out = []
            for i in range(0, len(data), 32):
                chunk = data[i : i + 32]
                if len(chunk) == 32:
                    out += [("PUSHN", 32, int.from_bytes(chunk, "big")), ("PUSH", s[1] + i), "MSTORE"]
                else:
                    for j, b in enumerate(chunk):
                        out += [("PUSH", b), ("PUSH", s[1] + i + j), "MSTORE8"]
            return out
        if k == "xcall":  # CALL addr with memory args, result flag discarded: ["xcall", addr, aoff, asize, roff, rsize]
            return [("PUSH", s[5]), ("PUSH", s[4]), ("PUSH", s[3]), ("PUSH", s[2]), ("PUSH", 0), ("PUSH", s[1]), "GAS", "CALL", "POP"]
        if k == "xcallf":  # same, flag stored at s[6]
            return [("PUSH", s[5]), ("PUSH", s[4]), ("PUSH", s[3]), ("PUSH", s[2]), ("PUSH", 0), ("PUSH", s[1]), "GAS", "CALL", ("PUSH", s[6]), "MSTORE"]
        raise ValueError(s)


def compile_body(body) -> bytes:
    return asm.assemble(Compiler().stmts(body))


def mutate(code: bytes, muts) -> bytes:
    b = bytearray(code)
    for m in muts or []:
        if not b:
            break
        kind, pos, val = m
        pos %= len(b)
        if kind == "set":
            b[pos] = val
        elif kind == "del":
            del b[pos]
        elif kind == "dup":
            b.insert(pos, b[pos])
        elif kind == "ins":
            b.insert(pos, val)
    return bytes(b)


# ---------------------------------------------------------------- strategies

NW = 4  # calldata words
ALU2 = ["ADD", "MUL", "SUB", "DIV", "SDIV", "MOD", "SMOD", "EXP", "SIGNEXTEND", "LT", "GT", "SLT", "SGT", "EQ", "AND", "OR", "XOR", "BYTE", "SHL", "SHR", "SAR"]
CMP2 = ["LT", "GT", "SLT", "SGT", "EQ"]
ENVS = ["CALLER", "ORIGIN", "CALLVALUE", "ADDRESS", "SELFBALANCE", "CALLDATASIZE", "CODESIZE", "RETURNDATASIZE", "TIMESTAMP", "NUMBER", "CHAINID", "COINBASE", "BASEFEE", "GASLIMIT", "DIFFICULTY", "PC", "MSIZE", "GAS", "GASPRICE"]

const_st = st.one_of(st.sampled_from(BOUNDARY), st.integers(0, 8), st.integers(0, 300), st.integers(0, M256))
small_const = st.integers(0, 5)
MOFF = st.sampled_from([0, 1, 31, 32, 33, 64, 96, 100, 128, 160, 0x200])
MSIZE_ = st.sampled_from([0, 1, 4, 31, 32, 33, 64, 68])


def expr_st(addrs, depth=3, allow_state=True):
    leaves = [
        const_st.map(lambda v: ["c", v]),
        st.integers(0, NW - 1).map(lambda i: ["cd", i]),
        st.integers(0, NW - 1).map(lambda i: ["cd", i]),
        st.sampled_from(ENVS).map(lambda n: ["env", n]),
        st.sampled_from(addrs).map(lambda a: ["c", a]),
        st.sampled_from([1, 31, 100, 127, 128, 130]).map(lambda o: ["cdo", o]),
    ]
    if allow_state:
        leaves += [MOFF.map(lambda o: ["mload", o]), small_const.map(lambda k: ["sload", ["c", k]]), small_const.map(lambda k: ["tload", ["c", k]])]
    leaf = st.one_of(*leaves)

    def ext(children):
        opts = [
            st.builds(lambda o, a, b: ["op2", o, a, b], st.sampled_from(ALU2), children, children),
            st.builds(lambda o, a: ["op1", o, a], st.sampled_from(["ISZERO", "NOT"]), children),
            st.builds(lambda o, a, b, c: ["op3", o, a, b, c], st.sampled_from(["ADDMOD", "MULMOD"]), children, children, children),
            st.builds(lambda a, b: ["op2", "AND", a, ["c", b]], children, st.sampled_from([1, 3, 0xFF, 0xFFFF, (1 << 160) - 1])),
        ]
        if allow_state:
            opts += [
                st.builds(lambda a: ["bal", a], children),
                st.builds(lambda a: ["sload", a], children),
                st.builds(lambda o, n: ["sha", o, n], MOFF, MSIZE_),
                st.builds(lambda a, s: ["mapkey", a, s], children, small_const),
                st.builds(lambda a: ["extsize", a], children),
                st.builds(lambda a: ["exthash", ["c", a]], st.sampled_from(addrs + [0x9999])),
            ]
        return st.one_of(*opts)

    return st.recursive(leaf, ext, max_leaves=depth + 2)


def cond_st(addrs):
    e = expr_st(addrs, 2)
    tiny = st.one_of(st.integers(0, 3).map(lambda v: ["c", v]), st.sampled_from(BOUNDARY).map(lambda v: ["c", v]), const_st.map(lambda v: ["c", v]))
    cdw = st.integers(0, NW - 1).map(lambda i: ["cd", i])
    return st.one_of(
        # the dispatcher shape: calldata word compared with a constant (equality adds a
        # term == constant fact to the path on one side)
        st.builds(lambda a, b: ["op2", "EQ", a, b], cdw, tiny),
        st.builds(lambda a, b: ["op2", "EQ", b, a], cdw, tiny),
        st.builds(lambda a, b: ["op1", "ISZERO", ["op2", "EQ", a, b]], cdw, tiny),
        st.builds(lambda o, a, b: ["op2", o, a, b], st.sampled_from(CMP2), e, tiny),
        st.builds(lambda o, a, b: ["op2", o, a, b], st.sampled_from(CMP2), e, e),
        st.builds(lambda a: ["op1", "ISZERO", a], e),
        e,
    )


def key_st(addrs):
    """storage key expressions that do not depend on memory (can be re-evaluated by the dump epilogue)"""
    pure = expr_st(addrs, 1, allow_state=False)
    return st.one_of(
        small_const.map(lambda k: ["c", k]),
        small_const.map(lambda k: ["c", k]),
        st.builds(lambda a, s: ["mapkey", a, s], pure, small_const),
        st.builds(lambda a, s: ["mapkey", ["op2", "AND", a, ["c", 3]], s], pure, small_const),
        st.builds(lambda i, s: ["arrkey", ["op2", "AND", i, ["c", 3]], s], pure, small_const),
        st.builds(lambda a, s, t: ["mapkey", a, s] if False else ["mapkey", ["c", t], s], pure, small_const, small_const),
    )


def terminator_st():
    return st.one_of(
        st.builds(lambda o, n: ["return", o, n], MOFF, MSIZE_),
        st.builds(lambda o, n: ["return", o, n], MOFF, MSIZE_),
        st.builds(lambda o, n: ["revert", o, n], MOFF, MSIZE_),
        st.just(["stop"]),
        st.just(["invalid"]),
        st.just(["underflow"]),
        st.just(["badjump"]),
    )


def stmt_st(addrs, callees, inits, level=0):
    e = expr_st(addrs)
    k = key_st(addrs)
    base = [
        st.builds(lambda o, v: ["mstore", o, v], MOFF, e),
        st.builds(lambda o, v: ["mstore8", o, v], MOFF, e),
        st.builds(lambda a, v: ["sstore", a, v], k, e),
        st.builds(lambda a, v: ["sstore", a, v], k, e),
        st.builds(lambda a, v: ["tstore", a, v], small_const.map(lambda c: ["c", c]), e),
        st.builds(lambda v: ["pop", v], e),
        st.builds(lambda d, o, n: ["cdcopy", d, o, n], MOFF, st.sampled_from([0, 1, 32, 100, 127, 128, 200]), MSIZE_),
        st.builds(lambda d, o, n: ["codecopy", d, o, n], MOFF, st.sampled_from([0, 1, 5, 1000]), MSIZE_),
        st.builds(lambda d, o, n: ["mcopy", d, o, n], MOFF, MOFF, MSIZE_),
        st.builds(lambda d, o, n: ["rdcopy", d, o, n], MOFF, st.sampled_from([0, 1, 32]), st.sampled_from([0, 1, 32, 33])),
        st.builds(lambda o, n, ts: ["log", o, n, ts], MOFF, MSIZE_, st.lists(e, max_size=3)),
        st.builds(lambda a, d, o, n: ["extcopy", ["c", a], d, o, n], st.sampled_from(addrs + [0x9999]), MOFF, st.sampled_from([0, 1, 5]), MSIZE_),
    ]
    if callees:
        # symbolic targets can alias the callees or non-existent accounts but never the caller's own
        # contract (no unbounded recursion: call trees stay <= 4 deep, see DESIGN section 3)
        lo = min(callees)
        tgt = st.one_of(
            st.sampled_from(callees + [4, 0x9999]).map(lambda a: ["c", a]),
            st.integers(0, NW - 1).map(lambda i: ["op2", "ADD", ["op2", "AND", ["cd", i], ["c", 3]], ["c", lo]]),
            st.integers(0, NW - 1).map(lambda i: ["op2", "OR", ["op2", "AND", ["cd", i], ["c", (1 << 160) - 1 - 0x1FFF]], ["c", lo]]),
        )
        val = st.one_of(st.just(["c", 0]), st.just(["c", 0]), st.sampled_from([1, 2, 1000]).map(lambda v: ["c", v]), st.integers(0, NW - 1).map(lambda i: ["cd", i]), st.just(["env", "CALLVALUE"]))
        base.append(
            st.builds(
                lambda kind, t, v, ao, asz, ro, rsz, fo: ["call", kind, t, v, ao, asz, ro, rsz, fo],
                st.sampled_from(["CALL", "CALL", "STATICCALL", "DELEGATECALL", "CALLCODE"]), tgt, val, MOFF, MSIZE_, MOFF, MSIZE_, st.sampled_from([0x300, 0x320, 0x340]),
            )
        )
    if inits:
        base.append(
            st.builds(
                lambda kind, v, ini, salt, fo: ["create", kind, v, ini, salt, fo],
                st.sampled_from(["CREATE", "CREATE2"]), st.sampled_from([["c", 0], ["c", 0], ["c", 1], ["cd", 0]]), st.sampled_from(inits), st.one_of(small_const.map(lambda c: ["c", c]), st.just(["cd", 1])), st.sampled_from([0x360, 0x380]),
            )
        )
    simple = st.one_of(*base)
    if level >= 2:
        return simple
    inner = st.deferred(lambda: stmt_st(addrs, callees, inits, level + 1))
    block = st.lists(inner, max_size=3)
    tblock = st.builds(lambda b, t: b + t, block, st.lists(terminator_st(), max_size=1))
    return st.one_of(
        simple,
        simple,
        simple,
        st.builds(lambda c, a, b: ["if", c, a, b], cond_st(addrs), tblock, tblock),
        st.builds(lambda c, m, b: ["loop", c, m, b], st.one_of(st.integers(0, 3).map(lambda v: ["c", v]), st.integers(0, NW - 1).map(lambda i: ["op2", "AND", ["cd", i], ["c", 3]])), st.integers(1, 3), block),
    )


def body_st(addrs, callees, inits, maxlen=6):
    return st.builds(lambda b, t: b + [t], st.lists(stmt_st(addrs, callees, inits), min_size=1, max_size=maxlen), terminator_st())


def mut_st():
    return st.lists(
        st.tuples(st.sampled_from(["set", "del", "dup", "ins"]), st.integers(0, 400), st.sampled_from([0x00, 0x01, 0x50, 0x56, 0x57, 0x5B, 0x5F, 0x60, 0x7F, 0x80, 0x90, 0xF3, 0xFD, 0xFE, 0x35, 0x54, 0x55])),
        min_size=1, max_size=3,
    )
