"""E1 — concrete reference EVM (Cancun subset that halmos supports), written for this harness.

No gas metering; real keccak; journaled state (storage, transient storage, balances, code);
EIP-214 static rules; value-transfer checks; new-account addresses are taken from an oracle
list (halmos names them 0xaaaa0000+k / 0xbbbb0000+id; equality modulo address naming), the
reference only checks freshness.  A pluggable `cheats` object handles calls to the cheatcode
addresses (used by C13/C14).

Result of run_tx: Result(status in {"success","revert","halt:<Name>"}, data, world(after), logs)
"""

from __future__ import annotations

import copy
from dataclasses import dataclass, field

from eth_hash.auto import keccak

from vfw.evmref import M256, alu

MAX_MEMORY_SIZE = 2**20
HEVM = 0x7109709ECFA91A80626FF3989D68F67F5B1DD12D
SVM = 0xF3993A62377BCD56AE39D773740A5390411E8BC9
CONSOLE = 0x000000000000000000636F6E736F6C652E6C6F67


class Halt(Exception):
    def __init__(self, name):
        self.name = name


class Unsupported(Exception):
    """the program left the instruction subset modelled by the reference"""


@dataclass
class Account:
    code: bytes = b""
    storage: dict = field(default_factory=dict)
    balance: int = 0
    nonce: int = 0


@dataclass
class World:
    accounts: dict = field(default_factory=dict)  # addr -> Account
    transient: dict = field(default_factory=dict)  # (addr, slot) -> val

    def acct(self, a) -> Account:
        return self.accounts.get(a)

    def snapshot(self):
        return copy.deepcopy(self)

    def restore(self, snap: "World"):
        self.accounts = snap.accounts
        self.transient = snap.transient


@dataclass
class Block:
    basefee: int = 0
    chainid: int = 31337
    coinbase: int = 0
    difficulty: int = 0
    gaslimit: int = 2**63 - 1
    number: int = 1
    timestamp: int = 1


@dataclass
class Msg:
    caller: int
    target: int  # address whose storage/balance is used (ADDRESS)
    code_addr: int  # where the code comes from
    value: int
    data: bytes
    origin: int
    static: bool = False
    depth: int = 1
    is_create: bool = False
    code: bytes | None = None  # explicit code (init code)


@dataclass
class Result:
    status: str
    data: bytes
    world: World
    logs: list
    flags: set
    created: list


class EVM:
    def __init__(self, world: World, block: Block | None = None, new_addresses=None, gas_values=None, gasprice=0, cheats=None, blockhash=None):
        self.w = world
        self.block = block or Block()
        self.new_addresses = list(new_addresses or [])
        self.gas_values = gas_values or (lambda k: 0)
        self.gas_count = 0
        self.gasprice = gasprice
        self.cheats = cheats
        self.blockhash = blockhash or (lambda n: 0)
        self.flags = set()
        self.created = []
        self.steps = 0
        self.max_steps = 200000
        self.sha3_inputs = []

    # ------------------------------------------------------------ top level
    def run_tx(self, msg: Msg, transfer_value=False) -> Result:
        """execute a top-level message.  transient storage starts empty."""
        self.w.transient = {}
        snap = self.w.snapshot()
        logs = []
        ok, data, name = self._frame(msg, logs, transfer=transfer_value)
        if not ok:
            self.w.restore(snap)
            logs = []
        return Result("success" if ok else name, data, self.w, logs, self.flags, self.created)

    # ------------------------------------------------------------ frames
    def _frame(self, msg: Msg, logs_out: list, transfer=True):
        """returns (success, returndata, status-name); state is rolled back on failure"""
        snap = self.w.snapshot()
        logs = []
        try:
            if transfer and msg.value:
                src = self.w.acct(msg.caller)
                if src is None or src.balance < msg.value:
                    raise Halt("InsufficientFunds")
                src.balance -= msg.value
                dst = self.w.accounts.setdefault(msg.target, Account())
                dst.balance += msg.value
            code = msg.code if msg.code is not None else (self.w.acct(msg.code_addr).code if self.w.acct(msg.code_addr) else b"")
            data = self._exec(code, msg, logs)
            logs_out.extend(logs)
            return True, data, "success"
        except Halt as h:
            self.w.restore(snap)
            if h.name == "Revert":
                return False, h.data, "revert"
            return False, b"", "halt:" + h.name

    # ------------------------------------------------------------ interpreter
    def _exec(self, code: bytes, msg: Msg, logs: list) -> bytes:
        w = self.w
        st = []
        mem = bytearray()
        pc = 0
        n = len(code)
        retdata = b""
        jds = _jumpdests(code)
        me = msg.target
        mem_written = [0]

        def pop():
            if not st:
                raise Halt("StackUnderflowError")
            return st.pop()

        def push(v):
            st.append(v & M256)
            if len(st) > 1024:
                self.flags.add("stack>1024")
                raise Halt("StackOverflowError")

        def expand(off, size, write=False):
            if size == 0:
                return
            if off + size > MAX_MEMORY_SIZE:
                raise Halt("OutOfGasError")
            need = ((off + size + 31) // 32) * 32
            if need > len(mem):
                mem.extend(b"\0" * (need - len(mem)))
            if write:
                mem_written[0] = max(mem_written[0], ((off + size + 31) // 32) * 32)

        def mread(off, size):
            if size == 0:
                return b""
            expand(off, size)
            return bytes(mem[off : off + size])

        def mwrite(off, data):
            if not data:
                return
            expand(off, len(data), write=True)
            mem[off : off + len(data)] = data

        def padded(src: bytes, off, size):
            if size > MAX_MEMORY_SIZE:
                raise Halt("OutOfGasError")
            chunk = src[off : off + size] if off < len(src) else b""
            return chunk + b"\0" * (size - len(chunk))

        def storage_of(a):
            return w.accounts.setdefault(a, Account()).storage

        while True:
            self.steps += 1
            if self.steps > self.max_steps:
                raise Unsupported("step limit")
            op = code[pc] if pc < n else 0
            # ---------------- push/dup/swap
            if 0x5F <= op <= 0x7F:
                k = op - 0x5F
                raw = code[pc + 1 : pc + 1 + k]
                push(int.from_bytes(raw + b"\0" * (k - len(raw)), "big") if k else 0)
                pc += 1 + k
                continue
            if 0x80 <= op <= 0x8F:
                k = op - 0x7F
                if len(st) < k:
                    raise Halt("StackUnderflowError")
                push(st[-k])
                pc += 1
                continue
            if 0x90 <= op <= 0x9F:
                k = op - 0x8F
                if len(st) < k + 1:
                    raise Halt("StackUnderflowError")
                st[-1], st[-k - 1] = st[-k - 1], st[-1]
                pc += 1
                continue
            name = _NAMES.get(op)
            if name is None:
                if op == 0xFE:
                    raise Halt("InvalidOpcode")
                raise Unsupported(f"opcode {op:#x}")
            pc += 1
            if name in _ALU:
                ar = _ALU[name]
                a = pop()
                b = pop() if ar > 1 else 0
                c = pop() if ar > 2 else 0
                push(alu(name, a, b, c))
            elif name == "STOP":
                return b""
            elif name == "POP":
                pop()
            elif name == "JUMPDEST":
                pass
            elif name == "JUMP":
                d = pop()
                if d not in jds:
                    raise Halt("InvalidJumpDestError")
                pc = d + 1
            elif name == "JUMPI":
                d = pop()
                c = pop()
                if c:
                    if d not in jds:
                        raise Halt("InvalidJumpDestError")
                    pc = d + 1
            elif name == "PC":
                push(pc - 1)
            elif name == "MSIZE":
                if len(mem) != mem_written[0]:
                    self.flags.add("msize-read-expansion")
                push(len(mem))
            elif name == "GAS":
                self.gas_count += 1
                self.flags.add("gas")
                push(self.gas_values(self.gas_count))
            elif name == "MLOAD":
                off = pop()
                if off > MAX_MEMORY_SIZE:
                    raise Halt("OutOfGasError")
                push(int.from_bytes(mread(off, 32), "big"))
            elif name == "MSTORE":
                off = pop()
                v = pop()
                if off > MAX_MEMORY_SIZE:
                    raise Halt("OutOfGasError")
                mwrite(off, v.to_bytes(32, "big"))
            elif name == "MSTORE8":
                off = pop()
                v = pop()
                if off > MAX_MEMORY_SIZE:
                    raise Halt("OutOfGasError")
                mwrite(off, bytes([v & 0xFF]))
            elif name == "MCOPY":
                dst = pop()
                src = pop()
                size = pop()
                if size:
                    if src + size > MAX_MEMORY_SIZE or dst + size > MAX_MEMORY_SIZE:
                        raise Halt("OutOfGasError")
                    mwrite(dst, mread(src, size))
            elif name == "SLOAD":
                push(storage_of(me).get(pop(), 0))
            elif name == "SSTORE":
                k = pop()
                v = pop()
                if msg.static:
                    raise Halt("WriteInStaticContext")
                storage_of(me)[k] = v
            elif name == "TLOAD":
                push(w.transient.get((me, pop()), 0))
            elif name == "TSTORE":
                k = pop()
                v = pop()
                if msg.static:
                    raise Halt("WriteInStaticContext")
                w.transient[(me, k)] = v
            elif name == "SHA3":
                off = pop()
                size = pop()
                if size and off + size > MAX_MEMORY_SIZE:
                    raise Halt("OutOfGasError")
                data = mread(off, size)
                self.sha3_inputs.append(data)
                if len(data) == 85 and data[0] == 0xFF:
                    self.flags.add("sha3-create2-shape")
                push(int.from_bytes(keccak(data), "big"))
            elif name == "ADDRESS":
                push(me)
            elif name == "BALANCE":
                a = pop() & ((1 << 160) - 1)
                acc = w.acct(a)
                push(acc.balance if acc else 0)
            elif name == "SELFBALANCE":
                acc = w.acct(me)
                push(acc.balance if acc else 0)
            elif name == "ORIGIN":
                push(msg.origin)
            elif name == "CALLER":
                push(msg.caller)
            elif name == "CALLVALUE":
                push(msg.value)
            elif name == "CALLDATALOAD":
                off = pop()
                data = b"" if msg.is_create else msg.data
                push(int.from_bytes(padded(data, off, 32), "big"))
            elif name == "CALLDATASIZE":
                push(0 if msg.is_create else len(msg.data))
            elif name == "CALLDATACOPY":
                dst = pop()
                off = pop()
                size = pop()
                if size:
                    if size > MAX_MEMORY_SIZE or dst + size > MAX_MEMORY_SIZE:
                        raise Halt("OutOfGasError")
                    mwrite(dst, padded(b"" if msg.is_create else msg.data, off, size))
            elif name == "CODESIZE":
                push(len(code))
            elif name == "CODECOPY":
                dst = pop()
                off = pop()
                size = pop()
                if size:
                    if size > MAX_MEMORY_SIZE or dst + size > MAX_MEMORY_SIZE:
                        raise Halt("OutOfGasError")
                    mwrite(dst, padded(code, off, size))
            elif name == "GASPRICE":
                self.flags.add("gasprice")
                push(self.gasprice)
            elif name == "EXTCODESIZE":
                a = pop() & ((1 << 160) - 1)
                if a in (HEVM, SVM):
                    push(1)
                else:
                    acc = w.acct(a)
                    push(len(acc.code) if acc else 0)
            elif name == "EXTCODECOPY":
                a = pop() & ((1 << 160) - 1)
                dst = pop()
                off = pop()
                size = pop()
                if size:
                    if size > MAX_MEMORY_SIZE or dst + size > MAX_MEMORY_SIZE:
                        raise Halt("OutOfGasError")
                    acc = w.acct(a)
                    mwrite(dst, padded(acc.code if acc else b"", off, size))
            elif name == "EXTCODEHASH":
                a = pop() & ((1 << 160) - 1)
                acc = w.acct(a)
                if acc is None:
                    push(0)
                else:
                    self.sha3_inputs.append(acc.code)
                    push(int.from_bytes(keccak(acc.code), "big"))
            elif name == "RETURNDATASIZE":
                push(len(retdata))
            elif name == "RETURNDATACOPY":
                dst = pop()
                off = pop()
                size = pop()
                if off + size > len(retdata):
                    if size == 0:
                        self.flags.add("returndatacopy-size0-oob")
                    raise Halt("OutOfBoundsRead")
                if size:
                    if dst + size > MAX_MEMORY_SIZE:
                        raise Halt("OutOfGasError")
                    mwrite(dst, retdata[off : off + size])
            elif name == "BLOCKHASH":
                self.flags.add("blockhash")
                push(self.blockhash(pop()))
            elif name == "COINBASE":
                push(self.block.coinbase)
            elif name == "TIMESTAMP":
                push(self.block.timestamp)
            elif name == "NUMBER":
                push(self.block.number)
            elif name == "DIFFICULTY":
                push(self.block.difficulty)
            elif name == "GASLIMIT":
                push(self.block.gaslimit)
            elif name == "CHAINID":
                push(self.block.chainid)
            elif name == "BASEFEE":
                push(self.block.basefee)
            elif name.startswith("LOG"):
                k = int(name[3])
                off = pop()
                size = pop()
                topics = [pop() for _ in range(k)]
                if msg.static:
                    raise Halt("WriteInStaticContext")
                if off > MAX_MEMORY_SIZE or (size and off + size > MAX_MEMORY_SIZE):
                    raise Halt("OutOfGasError")
                logs.append((me, topics, mread(off, size)))
            elif name == "RETURN" or name == "REVERT":
                off = pop()
                size = pop()
                if off > MAX_MEMORY_SIZE or (size and off + size > MAX_MEMORY_SIZE):
                    raise Halt("OutOfGasError")
                data = mread(off, size)
                if name == "RETURN":
                    return data
                h = Halt("Revert")
                h.data = data
                raise h
            elif name in ("CALL", "CALLCODE", "DELEGATECALL", "STATICCALL"):
                pop()  # gas
                to = pop() & ((1 << 160) - 1)
                value = pop() if name in ("CALL", "CALLCODE") else 0
                aoff = pop()
                asize = pop()
                roff = pop()
                rsize = pop()
                if asize and aoff + asize > MAX_MEMORY_SIZE:
                    raise Halt("OutOfGasError")
                args = mread(aoff, asize)
                if name == "CALL" and value and msg.static:
                    self.flags.add("static-call-with-value")
                    raise Halt("WriteInStaticContext")
                caller, origin = me, msg.origin
                if self.cheats is not None:
                    caller, origin = self.cheats.resolve_prank(self, msg, to, caller, origin)
                sub = Msg(
                    caller=caller if name != "DELEGATECALL" else msg.caller,
                    target=to if name in ("CALL", "STATICCALL") else me,
                    code_addr=to,
                    value=value if name != "DELEGATECALL" else msg.value,
                    data=args,
                    origin=origin,
                    static=msg.static or name == "STATICCALL",
                    depth=msg.depth + 1,
                )
                # insufficient balance: the call fails without running
                payer = w.acct(caller)
                if name in ("CALL", "CALLCODE") and value and (payer is None or payer.balance < value):
                    ok, data = False, b""
                    self.flags.add("insufficient-funds")
                elif to in (HEVM, SVM, CONSOLE) and self.cheats is not None:
                    ok, data = self.cheats.call(self, msg, sub, to, name)
                elif 1 <= to <= 10:
                    if to != 4:
                        raise Unsupported(f"precompile {to}")
                    if name == "CALL" and value:
                        payer.balance -= value
                        w.accounts.setdefault(to, Account()).balance += value
                    ok, data = True, args
                else:
                    sublogs = []
                    ok, data, _ = self._frame(sub, sublogs, transfer=(name == "CALL"))
                    if ok:
                        logs.extend(sublogs)
                retdata = data
                if rsize:
                    # EVM expands memory for the whole return area even if less is written
                    if roff + rsize > MAX_MEMORY_SIZE:
                        raise Halt("OutOfGasError")
                    expand(roff, rsize)
                    self.flags.add("ret-area")
                k = min(rsize, len(data))
                if k:
                    mwrite(roff, data[:k])
                push(1 if ok else 0)
            elif name in ("CREATE", "CREATE2"):
                if msg.static:
                    raise Halt("WriteInStaticContext")
                value = pop()
                off = pop()
                size = pop()
                salt = pop() if name == "CREATE2" else None
                if size and off + size > MAX_MEMORY_SIZE:
                    raise Halt("OutOfGasError")
                init = mread(off, size)
                creator, origin = me, msg.origin
                if self.cheats is not None:
                    creator, origin = self.cheats.resolve_prank(self, msg, 0, creator, origin)
                if not self.new_addresses:
                    raise Unsupported("address oracle exhausted")
                new = self.new_addresses.pop(0)
                self.created.append(new)
                payer = w.acct(creator)
                if value and (payer is None or payer.balance < value):
                    self.flags.add("insufficient-funds")
                    retdata = b""
                    push(0)
                elif new in w.accounts and (w.accounts[new].code or w.accounts[new].storage or w.accounts[new].nonce):
                    self.flags.add("address-collision")
                    retdata = b""
                    push(0)
                else:
                    snap = w.snapshot()
                    bal0 = w.accounts[new].balance if new in w.accounts else 0
                    w.accounts[new] = Account(code=b"", storage={}, balance=bal0, nonce=1)
                    sub = Msg(caller=creator, target=new, code_addr=new, value=value, data=b"", origin=origin, static=False, depth=msg.depth + 1, is_create=True, code=init)
                    sublogs = []
                    ok, data, _ = self._frame(sub, sublogs, transfer=True)
                    if ok:
                        if len(data) > 24576 or data[:1] == b"\xef":
                            self.flags.add("eip170/3541")
                        w.accounts[new].code = data
                        logs.extend(sublogs)
                        retdata = b""
                        push(new)
                    else:
                        w.restore(snap)
                        retdata = data
                        push(0)
            else:
                raise Unsupported(name)


def _jumpdests(code: bytes):
    out = set()
    pc = 0
    while pc < len(code):
        op = code[pc]
        if op == 0x5B:
            out.add(pc)
        pc += 1 + (op - 0x5F if 0x60 <= op <= 0x7F else 0)
    return out


from vfw.asm import NAME as _ASMNAMES  # noqa: E402
from vfw.evmref import ARITY as _ALU  # noqa: E402

_NAMES = {k: v for k, v in _ASMNAMES.items() if not (0x5F <= k <= 0x9F) and v not in ("INVALID", "SELFDESTRUCT")}
_NAMES[0x20] = "SHA3"
_NAMES[0x44] = "DIFFICULTY"
