"""small helpers: run a callable in a forked child under a termination bound"""
import os
import pickle
import select
import signal
import time


class Hang(Exception):
    pass


def forked(fn, timeout_s: float):
    """run fn() in a forked child; return its (picklable) result; raise Hang if it does not
    terminate within timeout_s (the child is killed).  Exceptions in the child are re-raised
    as RuntimeError(repr)."""
    r, w = os.pipe()
    pid = os.fork()
    if pid == 0:
        os.close(r)
        try:
            try:
                res = ("ok", fn())
            except BaseException as e:  # noqa
                res = ("exc", f"{type(e).__name__}: {e}")
            with os.fdopen(w, "wb") as f:
                pickle.dump(res, f)
        finally:
            os._exit(0)
    os.close(w)
    deadline = time.time() + timeout_s
    buf = b""
    try:
        while True:
            left = deadline - time.time()
            if left <= 0:
                os.kill(pid, signal.SIGKILL)
                os.waitpid(pid, 0)
                raise Hang()
            rl, _, _ = select.select([r], [], [], left)
            if not rl:
                continue
            chunk = os.read(r, 1 << 16)
            if not chunk:
                break
            buf += chunk
    finally:
        os.close(r)
    os.waitpid(pid, 0)
    if not buf:
        raise RuntimeError("child died without result")
    kind, val = pickle.loads(buf)
    if kind == "exc":
        raise RuntimeError(val)
    return val
