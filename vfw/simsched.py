"""Controlled-schedule harness for halmos.processes (C17).

Real Python threads are serialised by a baton: exactly one managed thread runs at a time and hands
control back to the scheduler at every *yield point* (operations of the shimmed `threading`,
`subprocess.Popen`, `psutil` objects and PopenFuture.result).  The scheduler picks the next thread
or environment event (a simulated process exits, a communicate() timeout fires) from a generated
list of integers, so an interleaving is a pure function of that list and can be replayed/shrunk.
"""

from __future__ import annotations

import subprocess
import threading
import types

import psutil as real_psutil


class HarnessStall(Exception):
    """a managed thread blocked on something the scheduler does not control (harness problem)"""


class MT:
    def __init__(self, name, fn):
        self.name, self.fn = name, fn
        self.sem = threading.Semaphore(0)
        self.state = "ready"  # ready | running | done
        self.label = "start"
        self.enabled = lambda: True
        self.error = None
        self.real = None


class SimProc:
    def __init__(self, sched, cmd):
        self.sched = sched
        self.cmd = cmd
        self.pid = 1000 + len(sched.procs)
        self.exited = False
        self.rc = None
        self.natural = False
        self.waiter = None  # {"timeout": t, "fired": bool} while a thread is in communicate()
        self.timed_out = False  # communicate() raised TimeoutExpired
        self.started_step = sched.step
        sched.procs.append(self)

    def finish(self, rc, natural=False):
        if not self.exited:
            self.exited, self.rc, self.natural = True, rc, natural


class Stream:
    def __init__(self):
        self.closed = False

    def close(self):
        self.closed = True


class Sched:
    def __init__(self, choices):
        self.choices = list(choices)
        self.ci = 0
        self.threads: list[MT] = []
        self.by_ident = {}
        self.wake = threading.Semaphore(0)
        self.procs: list[SimProc] = []
        self.step = 0
        self.trace = []
        self.errors = []

    # ------------------------------------------------------------ threads
    def spawn(self, fn, name):
        mt = MT(name, fn)
        self.threads.append(mt)

        def body():
            self.by_ident[threading.get_ident()] = mt
            mt.sem.acquire()
            mt.state = "running"
            try:
                fn()
            except BaseException as e:  # noqa: BLE001 -- recorded and judged by the oracle
                mt.error = e
                self.errors.append((name, repr(e)))
            finally:
                mt.state = "done"
                self.wake.release()

        mt.real = threading.Thread(target=body, daemon=True)
        mt.real.start()
        return mt

    def me(self):
        return self.by_ident.get(threading.get_ident())

    def yield_point(self, label, enabled=None):
        mt = self.me()
        if mt is None:
            return  # not a managed thread (scheduler / harness itself)
        mt.label = label
        mt.enabled = enabled or (lambda: True)
        mt.state = "ready"
        self.wake.release()
        mt.sem.acquire()
        mt.state = "running"

    # ------------------------------------------------------------ scheduling
    def _options(self, with_events):
        opts = [("thread", t) for t in self.threads if t.state == "ready" and t.enabled()]
        if with_events:
            for p in self.procs:
                if not p.exited:
                    opts.append(("exit", p))
                    if p.waiter and p.waiter["timeout"] is not None and not p.waiter["fired"]:
                        opts.append(("timeout", p))
        return opts

    def _run_thread(self, t):
        self.step += 1
        self.trace.append(f"{t.name}@{t.label}")
        t.sem.release()
        if not self.wake.acquire(timeout=20):
            raise HarnessStall(f"thread {t.name} did not come back from {t.label}; trace tail {self.trace[-8:]}")

    def run_choices(self):
        """phase 1: follow the generated choices (threads and environment events)"""
        while self.ci < len(self.choices):
            opts = self._options(True)
            if not opts:
                break
            kind, x = opts[self.choices[self.ci] % len(opts)]
            self.ci += 1
            if kind == "thread":
                self._run_thread(x)
            elif kind == "exit":
                self.step += 1
                self.trace.append(f"env:exit:{x.pid}")
                x.finish(0, natural=True)
            else:
                self.step += 1
                self.trace.append(f"env:timeout:{x.pid}")
                x.waiter["fired"] = True

    def drain(self, limit=5000):
        """run enabled threads (no environment events) until none is enabled"""
        n = 0
        while True:
            opts = self._options(False)
            if not opts:
                return
            self._run_thread(opts[n % len(opts)][1])
            n += 1
            if n > limit:
                raise HarnessStall("drain does not terminate")

    def finish_all_processes(self):
        for p in self.procs:
            if not p.exited:
                self.trace.append(f"env:exit:{p.pid}")
                p.finish(0, natural=True)

    def blocked(self):
        return [t for t in self.threads if t.state == "ready"]


# ---------------------------------------------------------------- shims

def make_shims(sched: Sched):
    """-> (threading shim, subprocess.Popen shim, psutil shim, concurrent shim)"""

    class SLock:
        def __init__(self):
            self.owner = None

        def acquire(self, blocking=True, timeout=-1):
            sched.yield_point("lock.acquire", lambda: self.owner is None)
            self.owner = sched.me() or "harness"
            return True

        def release(self):
            self.owner = None

        def __enter__(self):
            self.acquire()
            return self

        def __exit__(self, *a):
            self.release()

        def locked(self):
            return self.owner is not None

    class SEvent:
        def __init__(self):
            self.flag = False

        def is_set(self):
            sched.yield_point("event.is_set")
            return self.flag

        def set(self):
            sched.yield_point("event.set")
            self.flag = True

        def clear(self):
            self.flag = False

    class SThread:
        count = 0

        def __init__(self, target=None, daemon=None, args=(), kwargs=None, name=None):
            self.target, self.args, self.kwargs = target, args, kwargs or {}

        def start(self):
            SThread.count += 1
            mt = sched.spawn(lambda: self.target(*self.args, **self.kwargs), f"worker{len(sched.threads)}")
            mt.sthread = self

    def current_thread():
        mt = sched.me()
        return getattr(mt, "sthread", mt)

    th = types.SimpleNamespace(Lock=SLock, RLock=SLock, Event=SEvent, Thread=SThread, get_ident=threading.get_ident, current_thread=current_thread)

    class SPopen:
        def __init__(self, cmd, stdout=None, stderr=None, text=None, **kw):
            sched.yield_point("popen")
            self.sim = SimProc(sched, cmd)
            self.pid = self.sim.pid
            self.stdout, self.stderr, self.stdin = Stream(), Stream(), None
            self.args = cmd

        @property
        def returncode(self):
            return self.sim.rc if self.sim.exited else None

        def poll(self):
            sched.yield_point("poll")
            return self.sim.rc if self.sim.exited else None

        def communicate(self, input=None, timeout=None):
            self.sim.waiter = {"timeout": timeout, "fired": False}
            sched.yield_point("communicate", lambda: self.sim.exited or self.sim.waiter["fired"])
            w, self.sim.waiter = self.sim.waiter, None
            if not self.sim.exited:
                self.sim.timed_out = True
                raise subprocess.TimeoutExpired(self.args, timeout)
            return (f"out:{self.args[-1]}" if self.sim.natural else ""), ""

    class PsProcess:
        def __init__(self, pid):
            sched.yield_point("psutil.Process")
            self.sim = next((p for p in sched.procs if p.pid == pid), None)
            if self.sim is None or self.sim.exited:
                raise real_psutil.NoSuchProcess(pid)
            self.pid = pid

        def children(self, recursive=False):
            return []

        def terminate(self):
            sched.yield_point("terminate")
            if self.sim.exited:
                raise real_psutil.NoSuchProcess(self.pid)
            self.sim.finish(-15)

        def kill(self):
            sched.yield_point("kill")
            if self.sim.exited:
                raise real_psutil.NoSuchProcess(self.pid)
            self.sim.finish(-9)

        def wait(self, timeout=None):
            sched.yield_point("psutil.wait")
            return self.sim.rc

        def is_running(self):
            return not self.sim.exited

    ps = types.SimpleNamespace(Process=PsProcess, NoSuchProcess=real_psutil.NoSuchProcess, TimeoutExpired=real_psutil.TimeoutExpired)

    import concurrent.futures as cf

    class InlinePool:
        """the pool used by shutdown(wait=False) for the cancellations: tasks run in the caller"""

        def __init__(self, *a, **k):
            pass

        def __enter__(self):
            return self

        def __exit__(self, *a):
            return False

        def submit(self, fn, *a, **k):
            f = cf.Future()
            try:
                f.set_result(fn(*a, **k))
            except BaseException as e:  # noqa: BLE001 -- delivered through the future, as a pool does
                f.set_exception(e)
            return f

        def shutdown(self, wait=True, cancel_futures=False):
            pass

    futures_ns = types.SimpleNamespace(**{k: getattr(cf, k) for k in dir(cf) if not k.startswith("_")})
    futures_ns.ThreadPoolExecutor = InlinePool
    conc = types.SimpleNamespace(futures=futures_ns)
    return th, SPopen, ps, conc
