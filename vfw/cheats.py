"""Cheatcode layer of the reference EVM: Foundry semantics of prank / state-setting cheatcodes as
fixed by the repository's own regression tests (tests/regression/test/Prank.t.sol, Deal, Store,
Warp ...), and an oracle for fresh symbolic values (svm.create* / vm.random*).

Selectors are computed here from the Forge-std / halmos-cheatcodes signatures.
"""

from __future__ import annotations

from eth_hash.auto import keccak

from vfw import refevm

M256 = (1 << 256) - 1
M160 = (1 << 160) - 1


def sel(sig):
    return int.from_bytes(keccak(sig.encode())[:4], "big")


class CheatError(Exception):
    """the cheatcode call is an error in Foundry/halmos (e.g. overwriting an active prank)"""


VM = {
    "prank(address)": "prank", "prank(address,address)": "prank2", "startPrank(address)": "startPrank",
    "startPrank(address,address)": "startPrank2", "stopPrank()": "stopPrank", "deal(address,uint256)": "deal",
    "store(address,bytes32,bytes32)": "store", "load(address,bytes32)": "load", "fee(uint256)": "fee",
    "chainId(uint256)": "chainId", "coinbase(address)": "coinbase", "difficulty(uint256)": "difficulty",
    "roll(uint256)": "roll", "warp(uint256)": "warp", "etch(address,bytes)": "etch",
    "randomInt()": "f:int256", "randomInt(uint256)": "f:intN", "randomUint()": "f:uint256", "randomUint(uint256)": "f:uintN",
    "randomUint(uint256,uint256)": "f:minmax", "randomAddress()": "f:address", "randomBool()": "f:bool",
    "randomBytes(uint256)": "f:bytesN", "randomBytes4()": "f:bytes4", "randomBytes8()": "f:bytes8",
    "assume(bool)": "assume",
}
SVM = {
    "createUint(uint256,string)": "f:uintN", "createUint256(string)": "f:uint256", "createUint256(string,uint256,uint256)": "f:minmax_named",
    "createInt(uint256,string)": "f:intN", "createInt256(string)": "f:int256", "createBytes(uint256,string)": "f:bytesN",
    "createString(uint256,string)": "f:bytesN", "createBytes4(string)": "f:bytes4", "createBytes32(string)": "f:bytes32",
    "createAddress(string)": "f:address", "createBool(string)": "f:bool",
}
VM_SEL = {sel(k): v for k, v in VM.items()}
SVM_SEL = {sel(k): v for k, v in SVM.items()}


def word(data, i):
    b = data[4 + 32 * i : 4 + 32 * i + 32]
    return int.from_bytes(b + bytes(32 - len(b)), "big")


class Cheats:
    def __init__(self, fresh_value=None):
        self.pranks = {}  # id(msg) -> [sender, origin, keep]
        self.fresh_value = fresh_value or (lambda k, bits: 0)
        self.fresh_log = []  # (k, kind, bits, raw value)
        self.nfresh = 0
        self.assumed_false = False
        self.test_failed = False  # DSTest fail flag / failing vm.assert* seen

    # ---- prank
    def resolve_prank(self, evm, msg, to, caller, origin):
        p = self.pranks.get(id(msg))
        if p and to not in (refevm.HEVM, refevm.SVM):
            s, o, keep = p
            if not keep:
                del self.pranks[id(msg)]
            return (s if s is not None else caller), (o if o is not None else origin)
        return caller, origin

    def _set_prank(self, msg, s, o, keep):
        if id(msg) in self.pranks:
            raise CheatError("prank while a prank is active")
        self.pranks[id(msg)] = [s, o, keep]

    # ---- fresh values
    def _fresh(self, kind, data):
        if kind == "bytesN" and word(data, 0) == 0:
            # an empty byte string creates no symbol (and consumes no symbol number)
            return (32).to_bytes(32, "big") + bytes(32)
        self.nfresh += 1
        k = self.nfresh
        if kind in ("uintN", "intN"):
            bits = word(data, 0)
            if bits > 256:
                raise CheatError("bits > 256")
            raw = self.fresh_value(k, bits) & ((1 << bits) - 1) if bits else 0
            self.fresh_log.append((k, kind, bits, raw))
            if kind == "intN" and bits and raw >> (bits - 1):
                raw = raw | (M256 ^ ((1 << bits) - 1))
            return raw.to_bytes(32, "big")
        if kind in ("uint256", "int256", "bytes32"):
            raw = self.fresh_value(k, 256) & M256
            self.fresh_log.append((k, kind, 256, raw))
            return raw.to_bytes(32, "big")
        if kind in ("minmax", "minmax_named"):
            lo, hi = (word(data, 0), word(data, 1)) if kind == "minmax" else (word(data, 1), word(data, 2))
            if lo > hi:
                raise CheatError("min > max")
            raw = lo + self.fresh_value(k, 256) % (hi - lo + 1)
            self.fresh_log.append((k, kind, 256, raw))
            return raw.to_bytes(32, "big")
        if kind == "address":
            raw = self.fresh_value(k, 160) & M160
            self.fresh_log.append((k, kind, 160, raw))
            return raw.to_bytes(32, "big")
        if kind == "bool":
            raw = self.fresh_value(k, 1) & 1
            self.fresh_log.append((k, kind, 1, raw))
            return raw.to_bytes(32, "big")
        if kind in ("bytes4", "bytes8"):
            n = 4 if kind == "bytes4" else 8
            raw = self.fresh_value(k, 8 * n) & ((1 << (8 * n)) - 1)
            self.fresh_log.append((k, kind, 8 * n, raw))
            return raw.to_bytes(n, "big") + bytes(32 - n)
        if kind == "bytesN":
            n = word(data, 0)
            raw = self.fresh_value(k, 8 * n) & ((1 << (8 * n)) - 1) if n else 0
            self.fresh_log.append((k, kind, 8 * n, raw))
            body = raw.to_bytes(n, "big") if n else b""
            return (32).to_bytes(32, "big") + n.to_bytes(32, "big") + body + bytes((-n) % 32)
        raise CheatError(kind)

    # ---- dispatcher
    def call(self, evm, msg, sub, to, opname):
        data = sub.data
        if to == refevm.CONSOLE:
            return True, b""
        s = int.from_bytes(data[:4], "big")
        if to == refevm.HEVM:
            # legacy DSTest.fail(): vm.store(HEVM, "failed", 1); and the two boolean asserts
            if s == sel("store(address,bytes32,bytes32)") and word(data, 0) == refevm.HEVM:
                self.test_failed = True
                return True, b""
            if s in (sel("assertTrue(bool)"), sel("assertTrue(bool,string)")):
                self.test_failed |= word(data, 0) == 0
                return True, b""
            if s in (sel("assertFalse(bool)"), sel("assertFalse(bool,string)")):
                self.test_failed |= word(data, 0) != 0
                return True, b""
        table = VM_SEL if to == refevm.HEVM else SVM_SEL
        what = table.get(s)
        if what is None:
            raise CheatError(f"unknown selector {s:#x}")
        w = evm.w
        if what.startswith("f:"):
            return True, self._fresh(what[2:], data)
        if what == "prank":
            self._set_prank(msg, word(data, 0) & M160, None, False)
        elif what == "prank2":
            self._set_prank(msg, word(data, 0) & M160, word(data, 1) & M160, False)
        elif what == "startPrank":
            self._set_prank(msg, word(data, 0) & M160, None, True)
        elif what == "startPrank2":
            self._set_prank(msg, word(data, 0) & M160, word(data, 1) & M160, True)
        elif what == "stopPrank":
            self.pranks.pop(id(msg), None)
        elif what == "deal":
            w.accounts.setdefault(word(data, 0) & M160, refevm.Account()).balance = word(data, 1)
        elif what == "store":
            a = word(data, 0) & M160
            if a not in w.accounts:
                raise CheatError("store to a nonexistent account")
            w.accounts[a].storage[word(data, 1)] = word(data, 2)
        elif what == "load":
            a = word(data, 0) & M160
            acc = w.acct(a)
            return True, (acc.storage.get(word(data, 1), 0) if acc else 0).to_bytes(32, "big")
        elif what == "fee":
            evm.block.basefee = word(data, 0)
        elif what == "chainId":
            evm.block.chainid = word(data, 0)
        elif what == "coinbase":
            evm.block.coinbase = word(data, 0) & M160
        elif what == "difficulty":
            evm.block.difficulty = word(data, 0)
        elif what == "roll":
            evm.block.number = word(data, 0)
        elif what == "warp":
            evm.block.timestamp = word(data, 0)
        elif what == "etch":
            a = word(data, 0) & M160
            off = word(data, 1)
            n = int.from_bytes(data[4 + off : 4 + off + 32], "big")
            w.accounts.setdefault(a, refevm.Account()).code = bytes(data[4 + off + 32 : 4 + off + 32 + n])
        elif what == "assume":
            if word(data, 0) == 0:
                self.assumed_false = True
        return True, b""
