"""maintain MANIFEST.json: python -m vfw.manifest_tool  (re-generates checks from props modules' MANIFEST dicts)"""
import importlib, json, os, sys
sys.path.insert(0, os.path.dirname(os.path.dirname(os.path.abspath(__file__))))
from vfw.runner import MODULES

HOME = os.path.dirname(os.path.dirname(os.path.abspath(__file__)))
m = json.load(open(os.path.join(HOME, "MANIFEST.json")))
old = {c["property_id"]: c for c in m["checks"]}
oldna = {c["property_id"]: c for c in m.get("not_applicable", [])}
checks, na = [], []
served = {}
for pid, modname in sorted(MODULES.items()):
    path = os.path.join(HOME, modname.replace(".", "/") + ".py")
    info = None
    if os.path.exists(path):
        src = open(path).read()
        if "MANIFEST = " in src:
            ns = {}
            # MANIFEST dict is a pure literal assigned at module level
            start = src.index("MANIFEST = ")
            import ast
            node = ast.parse(src)
            for st in node.body:
                if isinstance(st, ast.Assign) and getattr(st.targets[0], "id", None) == "MANIFEST":
                    info = ast.literal_eval(st.value)
    if info is None and pid in old:
        checks.append(old[pid]); continue
    if info is None:
        na.append(oldna.get(pid) or {"property_id": pid, "reason": "check under construction; not claimed until it runs quietly on the unchanged tree"})
        continue
    checks.append({
        "property_id": pid,
        "quick_cmd": f"./check {pid} --tier quick",
        "thorough_cmd": f"./check {pid} --tier thorough",
        "evidence_file": f"evidence/{pid}.json",
        "replay_cmd_template": f"./check {pid} --replay {{path}}",
        "engine": info.get("engine", "vfw"),
        "technique": info["technique"],
        "level_claimed": {"category": info.get("category", "exploration"), "text": info["text"], "design_ref": f"DESIGN.md section 5, {pid}"},
        "level_note": info["note"],
    })
m["checks"] = checks
m["not_applicable"] = na
json.dump(m, open(os.path.join(HOME, "MANIFEST.json"), "w"), indent=1)
print("claimed:", [c["property_id"] for c in checks])
