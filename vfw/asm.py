"""E3 — tiny EVM assembler.

Program = list of items:
    "ADD"                 mnemonic
    ("PUSH", n)           shortest PUSH for integer n (PUSH0 for 0)
    ("PUSHN", k, n)       PUSHk with value n (k in 0..32)
    ("LABEL", "name")     emits JUMPDEST and binds name
    ("PUSHL", "name")     PUSH2 of label address
    ("RAW", b"..") / ("RAW", "hex")   raw bytes
"""

OPC = {
    "STOP": 0x00, "ADD": 0x01, "MUL": 0x02, "SUB": 0x03, "DIV": 0x04, "SDIV": 0x05, "MOD": 0x06,
    "SMOD": 0x07, "ADDMOD": 0x08, "MULMOD": 0x09, "EXP": 0x0A, "SIGNEXTEND": 0x0B,
    "LT": 0x10, "GT": 0x11, "SLT": 0x12, "SGT": 0x13, "EQ": 0x14, "ISZERO": 0x15, "AND": 0x16,
    "OR": 0x17, "XOR": 0x18, "NOT": 0x19, "BYTE": 0x1A, "SHL": 0x1B, "SHR": 0x1C, "SAR": 0x1D,
    "SHA3": 0x20, "KECCAK256": 0x20,
    "ADDRESS": 0x30, "BALANCE": 0x31, "ORIGIN": 0x32, "CALLER": 0x33, "CALLVALUE": 0x34,
    "CALLDATALOAD": 0x35, "CALLDATASIZE": 0x36, "CALLDATACOPY": 0x37, "CODESIZE": 0x38,
    "CODECOPY": 0x39, "GASPRICE": 0x3A, "EXTCODESIZE": 0x3B, "EXTCODECOPY": 0x3C,
    "RETURNDATASIZE": 0x3D, "RETURNDATACOPY": 0x3E, "EXTCODEHASH": 0x3F, "BLOCKHASH": 0x40,
    "COINBASE": 0x41, "TIMESTAMP": 0x42, "NUMBER": 0x43, "DIFFICULTY": 0x44, "PREVRANDAO": 0x44,
    "GASLIMIT": 0x45, "CHAINID": 0x46, "SELFBALANCE": 0x47, "BASEFEE": 0x48,
    "POP": 0x50, "MLOAD": 0x51, "MSTORE": 0x52, "MSTORE8": 0x53, "SLOAD": 0x54, "SSTORE": 0x55,
    "JUMP": 0x56, "JUMPI": 0x57, "PC": 0x58, "MSIZE": 0x59, "GAS": 0x5A, "JUMPDEST": 0x5B,
    "TLOAD": 0x5C, "TSTORE": 0x5D, "MCOPY": 0x5E, "PUSH0": 0x5F,
    "LOG0": 0xA0, "LOG1": 0xA1, "LOG2": 0xA2, "LOG3": 0xA3, "LOG4": 0xA4,
    "CREATE": 0xF0, "CALL": 0xF1, "CALLCODE": 0xF2, "RETURN": 0xF3, "DELEGATECALL": 0xF4,
    "CREATE2": 0xF5, "STATICCALL": 0xFA, "REVERT": 0xFD, "INVALID": 0xFE, "SELFDESTRUCT": 0xFF,
}
for _i in range(1, 33):
    OPC[f"PUSH{_i}"] = 0x5F + _i
for _i in range(1, 17):
    OPC[f"DUP{_i}"] = 0x7F + _i
    OPC[f"SWAP{_i}"] = 0x8F + _i

NAME = {}
for _k, _v in OPC.items():
    NAME.setdefault(_v, _k)


def push(n: int) -> bytes:
    n = int(n)
    assert 0 <= n < (1 << 256), n
    if n == 0:
        return bytes([0x5F])
    k = (n.bit_length() + 7) // 8
    return bytes([0x5F + k]) + n.to_bytes(k, "big")


def pushn(k: int, n: int) -> bytes:
    if k == 0:
        return bytes([0x5F])
    return bytes([0x5F + k]) + int(n).to_bytes(k, "big")


def _size(item) -> int:
    if isinstance(item, str):
        return 1
    t = item[0]
    if t == "PUSH":
        return len(push(item[1]))
    if t == "PUSHN":
        return 1 + item[1]
    if t == "LABEL":
        return 1
    if t == "PUSHL":
        return 3
    if t == "RAW":
        b = item[1]
        return len(bytes.fromhex(b) if isinstance(b, str) else b)
    raise ValueError(item)


def assemble(prog) -> bytes:
    labels = {}
    pc = 0
    for it in prog:
        if not isinstance(it, str) and it[0] == "LABEL":
            labels[it[1]] = pc
        pc += _size(it)
    out = bytearray()
    for it in prog:
        if isinstance(it, str):
            out.append(OPC[it])
            continue
        t = it[0]
        if t == "PUSH":
            out += push(it[1])
        elif t == "PUSHN":
            out += pushn(it[1], it[2])
        elif t == "LABEL":
            out.append(0x5B)
        elif t == "PUSHL":
            out += bytes([0x61]) + labels[it[1]].to_bytes(2, "big")
        elif t == "RAW":
            b = it[1]
            out += bytes.fromhex(b) if isinstance(b, str) else b
    return bytes(out)


def disasm(code: bytes) -> list:
    out = []
    pc = 0
    while pc < len(code):
        op = code[pc]
        if 0x60 <= op <= 0x7F:
            k = op - 0x5F
            out.append(f"{pc:04x} PUSH{k} 0x{code[pc + 1 : pc + 1 + k].hex()}")
            pc += 1 + k
        else:
            out.append(f"{pc:04x} {NAME.get(op, hex(op))}")
            pc += 1
    return out


def creation_code(runtime: bytes, prefix: bytes = b"") -> bytes:
    """init code that runs `prefix` (constructor body, must leave an empty stack) and then
    returns `runtime`"""
    n = len(runtime)
    # PUSH2 n ; PUSH2 off ; PUSH0 ; CODECOPY ; PUSH2 n ; PUSH0 ; RETURN
    hdr_len = len(prefix) + 3 + 3 + 1 + 1 + 3 + 1 + 1
    hdr = prefix + bytes([0x61]) + n.to_bytes(2, "big") + bytes([0x61]) + hdr_len.to_bytes(2, "big") + bytes([0x5F, 0x39]) + bytes([0x61]) + n.to_bytes(2, "big") + bytes([0x5F, 0xF3])
    assert len(hdr) == hdr_len
    return hdr + runtime
